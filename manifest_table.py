"""per-property claims (source of MANIFEST.json; see tools_gen_manifest.py)"""
CHECKS = {
 'C09': dict(
   text='Static: Port.put / Port.run path tables are compared region by region with the reference tables written from the '
        'property (accept/drop thresholds, byte accounting, hop stamp). Decides the mechanism, not departure instants.',
   ref='DESIGN.md 5 C09', note='CPython semantics; kernel Store is FIFO (C07); float arithmetic ignored',
   technique='static analysis: symbolic path tables + canonical terms compared with reference decision tables'),
}
NOT_APPLICABLE = {p: 'check under construction in this round (see DESIGN.md section 5); not claimed until its rules exist'
                  for p in ['C01','C02','C03','C04','C05','C06','C07','C08','C10','C11','C12','C13','C14','C15','C16','C17','C18','C19','C20']}
