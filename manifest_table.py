"""per-property claims (source of MANIFEST.json; see tools_gen_manifest.py)"""
CHECKS = {
 'C07': dict(text='static', ref='DESIGN.md 5 C07', note='n', technique='static analysis'),
 'C06': dict(text='static', ref='DESIGN.md 5 C06', note='n', technique='static analysis'),
 'C20': dict(text='static', ref='DESIGN.md 5 C20', note='n', technique='static analysis'),
 'C05': dict(text='static', ref='DESIGN.md 5 C05', note='n', technique='static analysis'),
 'C04': dict(text='static', ref='DESIGN.md 5 C04', note='n', technique='static analysis'),
 'C03': dict(text='static', ref='DESIGN.md 5 C03', note='n', technique='static analysis'),
 'C02': dict(text='static', ref='DESIGN.md 5 C02', note='n', technique='static analysis'),
 'C01': dict(text='static', ref='DESIGN.md 5 C01', note='n', technique='static analysis'),
 'C09': dict(
   text='Static: Port.put / Port.run path tables are compared region by region with the reference tables written from the '
        'property (accept/drop thresholds, byte accounting, hop stamp). Decides the mechanism, not departure instants.',
   ref='DESIGN.md 5 C09', note='CPython semantics; kernel Store is FIFO (C07); float arithmetic ignored',
   technique='static analysis: symbolic path tables + canonical terms compared with reference decision tables'),
}
NOT_APPLICABLE = {p: 'check under construction in this round (see DESIGN.md section 5); not claimed until its rules exist'
                  for p in ['C08','C10','C11','C12','C13','C14','C15','C16','C17','C18','C19']}
