"""per-property claims (source of MANIFEST.json; see tools_gen_manifest.py)"""

TECH = ('static analysis: symbolic path tables of the anchored methods (ast, no execution) compared region by region '
        'with reference tables written from the property, plus %s; class-protocol and dependency-layer rules')
NOTE = ('Decides the mechanism in the source, not runtime behaviour. Trusted: CPython semantics (generators, heapq, '
        'list.sort stability, tuple comparison), %s. Dimensions of the predicate abstraction are treated as independent '
        '(can only make more path pairs look feasible, i.e. is conservative). A structural change the canonicaliser does '
        'not see through is reported as a difference from the reference table with file:line. Every check also runs the '
        'class-protocol rule over the classes it consulted and (from C06 on) the reference tables of the layers below the '
        'property (kernel, element stores, Packet/Device). Arithmetic is compared over the reals: a float re-association is '
        'invisible (two recorded known misses). State a change adds that no confirmed code reads, new optional parameters at '
        'their defaults and new classes nothing refers to are left out of the verdict and listed in the evidence notes.')


def c(text, ref, extra_tech, trusted):
    return dict(text=text, ref='DESIGN.md section 5 ' + ref, technique=TECH % extra_tech, note=NOTE % trusted)


CHECKS = {
 'C01': c('Every path of schedule/step/peek/Environment.__init__, of run() as far as the numeric stop goes, of Process._resume as far as the agenda goes, and of the Timeout/Initialize/Interruption constructors is '
          'shown equivalent to a reference table: agenda key (now+delay, priority, next id, event), clock written from the '
          'popped key only, negative delay refused before scheduling; the refusing guards of Timeout(delay) and run(until) evaluated for a NaN argument. Whole-repo scans: writers of the clock, agenda and '
          'insertion counter; priority class and constants at all 9+ schedule() sites; no schedule() delay is a difference from the clock (float drift of the due time). Time order / urgent-first / trigger '
          'order follow from these by a short argument (DESIGN); universally quantified over programs because it is about '
          'the code, not about sampled runs.',
          'C01', 'who-may scans over the whole repository and constant resolution', 'IEEE addition monotone for non-negative delays'),
 'C02': c('Environment.step (callbacks swapped to None, each called once in list order, undefused failure re-raised as a '
          'copy), Event.succeed/fail/trigger (second trigger refused before any write; a Process refuses hand-made triggers), Process._resume (value sent / '
          'failure defused and thrown as a copy / termination outcome / immediate continuation on processed events / single '
          'subscription) equivalent to reference tables; who-may scans of outcome writers and of every growth or removal on a '
          'callbacks list; exception classes clonable; handlers around a step() call name only the stop signal; the raising stop callback sits only on an event created on the same path.',
          'C02', 'who-may scans of _ok/_value/callbacks sites', 'what user callbacks do'),
 'C03': c('Environment.run equivalent to the reference (numeric until refused iff at <= now, fresh private sentinel URGENT at '
          'at-now, stop callback only on that sentinel; event until polled after each step so every waiter is resumed before '
          'the stop), step and StopSimulation.callback; whole-repo flow scan for nondeterminism sources (wall clock, id/hash, '
          'uuid reaching anything but __repr__, order-sensitive iteration over sets incl. float accumulation); no schedule() delay is a difference from the clock.',
          'C03', 'a whole-repo scan of nondeterminism sources classified by sink', 'user programs are themselves deterministic'),
 'C04': c('Interruption.__init__ (pre-failed, pre-defused, dead and self targets refused before scheduling, URGENT), '
          '_interrupt (dead victim ignored, victim alone detached, then resumed), Process.__init__/Initialize (start scheduled '
          'URGENT before the process can be referenced), Process._resume equivalent to reference tables; priority of every '
          'schedule() site; Interruption constructed only in Process.interrupt.',
          'C04', 'who-may scans of schedule() and Interruption() sites', 'ordering among equal keys is C01'),
 'C05': c('Condition.__init__, _check, _build_value, _populate_value, _remove_check_callbacks, both predicates, AllOf/AnyOf, '
          '&/| and the ConditionValue accessors equivalent to reference tables.',
          'C05', 'nothing else', 'the instant of firing follows from C01/C02'),
 'C06': c('Resource._do_put/_do_get, the two scan loops, Put/Get constructors, cancel (with rescan), __exit__, Release, '
          'PriorityRequest key, SortedQueue.append, PreemptiveResource._do_put equivalent to reference tables; class-level '
          'queue types, BoundClass bindings and their typed stubs, unexpected overrides; who-may scans of the user list and '
          'request queues.',
          'C06', 'class-shape checks and who-may scans', 'each process holds or awaits at most one request per resource'),
 'C07': c('Container guards and constructor bounds, Store/PriorityStore/FilterStore _do_put/_do_get, the scan loops, request '
          'constructors and cancel-with-rescan equivalent to reference tables; who-may scans of _level, items and the queues; '
          'heapq resolved; Container amount/bound guards evaluated for NaN; the put guard evaluated for an absorbed amount on a full container.',
          'C07', 'class-shape checks and who-may scans', 'items of a PriorityStore are orderable'),
 'C08': c('Per element: put()/run()/__init__ of ports, wires, token buckets, every scheduler, demuxes, switches, generator, '
          'sink and Packet equivalent to reference tables; element registry exhaustive; every put() path disposes of the packet '
          'exactly once; every run() iteration forwards what it dequeued, not a copy; store producer/consumer shape agreement; '
          'identity fields written only in Packet.__init__ (+ sender re-stamp); no assert on a level the loop sets to 0; '
          'servers spawned once with their own environment; no uncovered override.',
          'C08', 'path, shape and who-may rules over all element classes', 'kernel stores are FIFO / heap ordered (C07); re-entrancy through out.put only as far as the order of stores and hand-overs'),
 'C09': c('Port.put (thresholds, byte accounting, hop stamp), Port.run (8*size/rate, bytes released on every path, one '
          'forward), REDPort.put (EWMA gain, three regions, one draw), PortMonitor.run (packet in service = what the port server holds, also before it is resumed) equivalent to reference tables; inc/dec '
          'pairing of byte_size for Port and every subclass; overriding put keeps the base effects.',
          'C09', 'inc/dec pairing and sibling rules', 'random.uniform; kernel Store FIFO'),
 'C10': c('Wire.put (entry instant queued with the packet), Wire.run (loss first with one draw, kept packet: one delay draw, wait delay - queued time iff positive, '
          'one forward), Cable construction and endpoints equivalent to reference tables.',
          'C10', 'spawn-site and override rules', 'distribution of the draws; kernel Store FIFO'),
 'C11': c('Bucket constructors (full, refill origin = instant of creation), TokenBucket.run and TwoRateTokenBucket.run (refills with caps, exact deficit wait, debits, update instants, colour '
          'decision, peak spacing) equivalent to reference tables; store shape agreement; no assert on a level that may be 0.',
          'C11', 'shape and sign rules', 'float rounding ignored; conformance inequality follows by the textbook argument'),
 'C12': c('Scheduler.send_packet, add_packet_to_queue, MultiQueueScheduler.put (wake-up token iff empty on entry), every '
          'scheduler\'s put/run, Monitor.run equivalent to reference tables; every send_packet spawned and awaited; server '
          'yield whitelist with the wake-up wait guarded in the same instant; flow/class key domains never mixed.',
          'C12', 'key-domain unification, yield whitelist and who-may rules', 'configured flows only'),
 'C13': c('SP.__init__ (scan list sorted by priority value, descending) and SP.run (skip iff empty at the time, one awaited '
          'service, scan left and restarted after every service) equivalent to reference tables, plus the rescan path rule.',
          'C13', 'a loop-exit path rule', 'positive priorities'),
 'C14': c('WFQ.put/run/serve/update_vtime/reset_vtime and VC.put/run equivalent to reference tables (stamp on every path, smallest stamp chosen in the step that starts the transmission, V '
          'updated before stamping and after each transmission); heap key = PriorityItem ending in an arrival number '
          'incremented by the same call, payload never compared.',
          'C14', 'a key-shape rule and key-domain unification', 'heapq; the weighted-service bound follows from stamp order'),
 'C15': c('DRR.__init__/put/run, RR.run, WRR.run equivalent to reference tables (quantum formula, one top-up per visit, '
          'debit, credit reset on empty, parked head under its class, per-visit allowances).',
          'C15', 'awaited-send and key-domain rules', 'the fairness bound follows by the DRR lemma'),
 'C16': c('TCPSink.packet_arrived/put (ACK is a function of the receive buffer only: end of the first range iff it starts at '
          '0), sender run/put (a cumulative ACK drops the timers of every segment it covers)/timeout_callback/resend_packet and the Timer equivalent to reference tables; splat shape of '
          'Timer args; network-supplied keys guarded; one ACK-class offset literal. Liveness over loss patterns is NOT decided '
          '(necessary structure only).',
          'C16', 'flow (data-dependence), shape and taint rules', 'reliability under every finite loss pattern is outside static reach'),
 'C17': c('Send guard, Reno and CUBIC hooks, ACK dispatch (dupack_over iff fast recovery), Jacobson/Karels estimator, '
          'timeout_callback equivalent to reference tables; cwnd/ssthresh written only by the hooks.',
          'C17', 'who-may scans of cwnd/ssthresh', 'the CUBIC window function has no reference formula in the property'),
 'C18': c('FlowDemux/FIBDemux/RandomDemux.put, switch constructors, Hub, Splitter/NSplitter, Packet.__copy__, FatTree '
          'construction, flow and FIB generation equivalent to reference tables; every mutable Packet member re-created by '
          '__copy__; one ACK-class offset value in sink, sender and FIB generator; every concrete Device class defines element_id.',
          'C18', 'an aliasing rule', 'networkx all_shortest_paths; end-to-end delivery is a run-time statement'),
 'C19': c('Timer.__init__ (argument normalisation), run (pending-expiry flag instead of a clock comparison), stop, restart and the sender\'s timeout_callback equivalent to '
          'reference tables; restart reachable from the timer\'s own process through callback edges, so its interrupt is '
          'guarded by the active-process test; interrupt guard implies the callee precondition.',
          'C19', 'a call-graph (callback edge) rule and a guard-implication rule', 'callbacks that raise'),
 'C20': c('RealtimeEnvironment.step/sync/__init__ equivalent to reference tables (due time formula, strict check before any '
          'sleep, sleep re-checked in a loop, exactly one kernel step); the subclass overrides only step/sync and writes no '
          'kernel state.',
          'C20', 'an override / writer scan of the subclass', 'OS clock and sleep'),
}
NOT_APPLICABLE = {}
