"""per-property claims (source of MANIFEST.json; see tools_gen_manifest.py)"""
CHECKS = {
 'C19': dict(text='static', ref='DESIGN.md 5 C19', note='n', technique='static analysis'),
 'C18': dict(text='static', ref='DESIGN.md 5 C18', note='n', technique='static analysis'),
 'C17': dict(text='static', ref='DESIGN.md 5 C17', note='n', technique='static analysis'),
 'C16': dict(text='static', ref='DESIGN.md 5 C16', note='n', technique='static analysis'),
 'C15': dict(text='static', ref='DESIGN.md 5 C15', note='n', technique='static analysis'),
 'C14': dict(text='static', ref='DESIGN.md 5 C14', note='n', technique='static analysis'),
 'C13': dict(text='static', ref='DESIGN.md 5 C13', note='n', technique='static analysis'),
 'C12': dict(text='static', ref='DESIGN.md 5 C12', note='n', technique='static analysis'),
 'C11': dict(text='static', ref='DESIGN.md 5 C11', note='n', technique='static analysis'),
 'C10': dict(text='static', ref='DESIGN.md 5 C10', note='n', technique='static analysis'),
 'C08': dict(text='static', ref='DESIGN.md 5 C08', note='n', technique='static analysis'),
 'C07': dict(text='static', ref='DESIGN.md 5 C07', note='n', technique='static analysis'),
 'C06': dict(text='static', ref='DESIGN.md 5 C06', note='n', technique='static analysis'),
 'C20': dict(text='static', ref='DESIGN.md 5 C20', note='n', technique='static analysis'),
 'C05': dict(text='static', ref='DESIGN.md 5 C05', note='n', technique='static analysis'),
 'C04': dict(text='static', ref='DESIGN.md 5 C04', note='n', technique='static analysis'),
 'C03': dict(text='static', ref='DESIGN.md 5 C03', note='n', technique='static analysis'),
 'C02': dict(text='static', ref='DESIGN.md 5 C02', note='n', technique='static analysis'),
 'C01': dict(text='static', ref='DESIGN.md 5 C01', note='n', technique='static analysis'),
 'C09': dict(
   text='Static: Port.put / Port.run path tables are compared region by region with the reference tables written from the '
        'property (accept/drop thresholds, byte accounting, hop stamp). Decides the mechanism, not departure instants.',
   ref='DESIGN.md 5 C09', note='CPython semantics; kernel Store is FIFO (C07); float arithmetic ignored',
   technique='static analysis: symbolic path tables + canonical terms compared with reference decision tables'),
}
NOT_APPLICABLE = {p: 'check under construction in this round (see DESIGN.md section 5); not claimed until its rules exist'
                  for p in []}
