#!/venv/bin/python
"""(re)generate MANIFEST.json from the table below; run after adding a rule module"""
import json, os
HERE = os.path.dirname(os.path.abspath(__file__))
from manifest_table import CHECKS, NOT_APPLICABLE
checks = []
for pid, d in CHECKS.items():
    checks.append({
        'property_id': pid,
        'quick_cmd': '/venv/bin/python -m onlsa check %s --tier quick' % pid,
        'thorough_cmd': '/venv/bin/python -m onlsa check %s --tier thorough' % pid,
        'evidence_file': 'evidence/%s.json' % pid,
        'replay_cmd_template': '/venv/bin/python -m onlsa replay {path}',
        'engine': 'onlsa',
        'level_claimed': {'category': 'other', 'text': d['text'], 'design_ref': d['ref']},
        'level_note': d['note'],
        'technique': d['technique'],
    })
m = {
    'version': 1,
    'setup_cmd': '/venv/bin/python -m onlsa selfcheck',
    'hooks': {'guard': 'ONL_EDU_VERIF', 'enable': 'none needed: the analysis reads source text only; no hook exists in /repo',
              'baseline_off_cmd': 'cd /repo && /venv/bin/python -m pytest -ra -q -p no:cacheprovider --timeout=900 --continue-on-collection-errors',
              'source_commits': [], 'add_only': True},
    'engines': [{'name': 'onlsa', 'path': 'onlsa/', 'serves_properties': sorted(CHECKS),
                 'kind_free_text': 'repo-specific static analyser: ast model, symbolic path tables, canonical terms, '
                                   'region-wise comparison with reference tables, who-may scans, call graph'}],
    'checks': checks,
    'not_applicable': [{'property_id': k, 'reason': v} for k, v in NOT_APPLICABLE.items()],
    'notes': 'Static analysis only: no check imports or runs /repo. Exit 0 holds / 1 VIOLATION / 2 ANALYSIS-ERROR '
             '(private anchor vanished, parse error, unclassified class in use, instance count below the confirmed floor with nothing else to report). Genuine defects found on the pinned tree were repaired by fix: commits '
             '(see KNOWN_FINDINGS.txt).',
}
json.dump(m, open(os.path.join(HERE, 'MANIFEST.json'), 'w'), indent=1)
print('checks:', len(checks), 'not_applicable:', len(NOT_APPLICABLE))
