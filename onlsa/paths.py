"""Path summaries: every acyclic path through a function body (and, for loops,
through one iteration of the loop body) as a list of literals (branch
conditions taken) plus an ordered list of effects, with all terms in the
canonical form of terms.py.

The executor is a symbolic interpreter over the *syntax*: local names are
replaced by their defining terms, ``self.f`` loads after a write on the same
path see the written term (store-to-load forwarding), small self-calls and
property getters are inlined, ``x = yield e`` binds a fresh symbol and opens a
new *epoch* (state that other processes may change while this one is
suspended is re-read after a yield), impure calls bind fresh symbols.  Nothing
is executed and no value is ever computed.
"""
from __future__ import annotations

import ast
import copy
import re
from fractions import Fraction
from typing import Dict, List, Optional, Tuple

from .model import ClassInfo, FuncInfo, Repo, walk_local, AnalysisError
from . import terms
from .terms import term, atom_of, lit_str

PURE_FUNCS = {
    'len', 'min', 'max', 'abs', 'sum', 'sorted', 'float', 'int', 'str', 'bool', 'isinstance', 'hasattr',
    'type', 'tuple', 'list', 'dict', 'set', 'range', 'enumerate', 'zip', 'getattr', 'repr', 'round', 'any',
    'all', 'reversed', 'id', 'frozenset', 'issubclass', 'callable', 'divmod', 'pow', 'ord', 'chr', 'format',
    'iter', 'map', 'filter',
}
PURE_QUALIFIED = {'math.fsum', 'math.sqrt', 'math.floor', 'math.ceil', 'math.isnan', 'math.isinf', 'math.isfinite', 'math.fabs',
                  'math.log', 'math.exp', 'math.pow', 'math.copysign'}
PURE_METHODS = {'keys', 'values', 'items', 'get', 'size', 'copy', 'index', 'count', 'format', 'join',
                'startswith', 'endswith', 'byte_size', 'all_flows', 'number_of_nodes', 'nodes', 'neighbors',
                'todict', 'flow2class', 'split', 'strip', 'lower', 'upper'}
MUTATORS = {'append', 'extend', 'insert', 'remove', 'pop', 'clear', 'sort', 'reverse', 'add', 'discard',
            'update', 'setdefault', 'popitem', 'appendleft', 'popleft'}
IGNORED_CALLS = {'print', 'dprint'}


def ctor_params(cls) -> Optional[List[str]]:
    """positional parameter names of a class's constructor: its __init__, or the annotated fields of a dataclass"""
    init = cls.lookup('__init__')
    if init is not None:
        if init.node.args.vararg:
            return None
        return [p_ for p_ in init.params if p_ != 'self']
    if any('dataclass' in ast.unparse(d) for d in cls.node.decorator_list) or 'NamedTuple' in cls.base_names:
        out = []
        for c in reversed(cls.mro()):
            for st_ in c.node.body:
                if isinstance(st_, ast.AnnAssign) and isinstance(st_.target, ast.Name) and st_.target.id not in out:
                    out.append(st_.target.id)
        return out
    return None


def is_private_namedtuple(cls) -> bool:
    return cls.name.startswith('_') and 'NamedTuple' in cls.base_names and cls.lookup('__new__') is None and cls.lookup('__init__') is None


def nt_value(v):
    """(class name, argument nodes) when v is the pure value of a private NamedTuple construction"""
    if isinstance(v, ast.Call) and isinstance(v.func, ast.Name) and v.func.id.startswith('@nt:'):
        return v.func.id[4:], v.args
    return None


def bind_keywords(params, args, kwargs):
    """move keyword arguments into positional order as far as the parameters are consecutive from the left"""
    if params is None or not kwargs:
        return args, kwargs
    kw = dict(kwargs)
    pos = list(args)
    while len(pos) < len(params) and params[len(pos)] in kw:
        pos.append(kw.pop(params[len(pos)]))
    return pos, [(k, v) for k, v in kwargs if k in kw]


def _is_condition(e) -> bool:
    """syntactically a truth value: a comparison, and/or of conditions, or a negation"""
    if isinstance(e, ast.Compare):
        return True
    if isinstance(e, ast.UnaryOp) and isinstance(e.op, ast.Not):
        return True
    if isinstance(e, ast.BoolOp):
        return all(_is_condition(v) for v in e.values)
    return False


def _is_exception_name(nm: str) -> bool:
    import builtins
    c = getattr(builtins, nm, None)
    return isinstance(c, type) and issubclass(c, BaseException)


class Effect:
    __slots__ = ('kind', 'target', 'value', 'args', 'kwargs', 'sym', 'lineno', 'epoch', 'region', 'extra')

    def __init__(self, kind, target=None, value=None, args=(), kwargs=(), sym=None, lineno=0, epoch=0,
                 region=None, extra=None):
        self.kind = kind          # write | call | yield | assert | loop | del | except | raise | return
        self.target = target      # canonical lvalue / callee / loop header
        self.value = value        # canonical value (write, yield, return)
        self.args = tuple(args)
        self.kwargs = tuple(kwargs)
        self.sym = sym
        self.lineno = lineno
        self.epoch = epoch
        self.region = region      # for loop: Region
        self.extra = extra

    def key(self) -> str:
        if self.kind == 'write':
            return 'write %s := %s' % (self.target, self.value)
        if self.kind == 'call':
            a = list(self.args) + sorted('%s=%s' % kv for kv in self.kwargs)     # keyword order is not observable
            return 'call %s(%s)' % (self.target, ', '.join(a))
        if self.kind == 'yield':
            return 'yield %s' % self.value
        if self.kind == 'assert':
            return 'assert %s' % self.value
        if self.kind == 'loop':
            return 'loop %s' % self.target
        if self.kind == 'del':
            return 'del %s' % self.target
        if self.kind == 'except':
            return 'except %s' % self.target
        return '%s %s' % (self.kind, self.value if self.value is not None else self.target)

    def __repr__(self):
        return '<%s @%d>' % (self.key(), self.lineno)


class Path:
    __slots__ = ('lits', 'effects', 'exit', 'exit_value', 'exit_line')

    def __init__(self, lits, effects, exit, exit_value=None, exit_line=0):
        self.lits = lits              # [(atom, polarity, lineno)]
        self.effects = effects        # [Effect]
        self.exit = exit              # fall | return | raise | break | continue | forever
        self.exit_value = exit_value  # canonical string
        self.exit_line = exit_line

    def cond_str(self) -> str:
        return ' and '.join(lit_str((a, p)) for a, p, _ in self.lits) or 'True'

    def describe(self) -> str:
        return '[%s] -> %s ; exit %s%s' % (
            self.cond_str(), '; '.join(e.key() for e in self.effects) or '(nothing)', self.exit,
            (' ' + self.exit_value) if self.exit_value else '')


class Region:
    """one loop: header + per-iteration paths"""

    def __init__(self, kind, header, paths, lineno, target=None, has_break=False):
        self.kind = kind          # while | for
        self.header = header      # canonical test / iterable
        self.target = target      # for-loop target (canonical)
        self.paths: List[Path] = paths
        self.lineno = lineno
        self.has_break = has_break

    def all_effects(self):
        for p in self.paths:
            for e in p.effects:
                yield e
                if e.kind == 'loop':
                    yield from e.region.all_effects()


_EPOCH_TAG = re.compile(r'(?<=[\w\]\)])@\d+')
_VER_TAG = re.compile(r'\$g?\d+')


def plain(s: str) -> str:
    """a location name without version ($n) and epoch (@n) tags"""
    return _VER_TAG.sub('', _EPOCH_TAG.sub('', s))


class State:
    __slots__ = ('locals', 'heap', 'lits', 'effects', 'epoch', 'counters', 'known', 'versions')

    def __init__(self):
        self.locals: Dict[str, ast.expr] = {}
        self.heap: Dict[str, ast.expr] = {}
        self.lits: List[tuple] = []
        self.effects: List[Effect] = []
        self.epoch = 0
        self.counters: Dict[str, int] = {}
        self.known: Dict[tuple, bool] = {}
        self.versions: Dict[str, int] = {}

    def bump(self, key: str):
        """the object behind `root.field` was changed in place (element store, mutator call): later
        reads of anything reached through it are reads of a new version"""
        pk = plain(key)
        parts = pk.split('[')[0].split('.')
        if len(parts) >= 2:
            b = parts[0] + '.' + parts[1]
            self.versions[b] = self.versions.get(b, 0) + 1
        # which object was changed: X for an element X[i] / a member X.m / a method call X.m(...)
        i, j = pk.rfind('['), pk.rfind('.')
        if pk.endswith(']') and i > 0:
            obj = pk[:i]
        elif j > 0:
            obj = pk[:j]
        else:
            obj = pk
        self.counters['@mutlog'] = self.counters.get('@mutlog', ()) + (obj,)

    def fork(self) -> 'State':
        s = State.__new__(State)
        s.locals = dict(self.locals)
        s.heap = dict(self.heap)
        s.lits = list(self.lits)
        s.effects = list(self.effects)
        s.epoch = self.epoch
        s.counters = dict(self.counters)
        s.known = dict(self.known)
        s.versions = dict(self.versions)
        return s


def _load(e):
    e2 = copy.deepcopy(e)
    for n in ast.walk(e2):
        if hasattr(n, 'ctx'):
            n.ctx = ast.Load()
    return e2


def name(s: str) -> ast.Name:
    return ast.Name(id=s, ctx=ast.Load())


class Options:
    def __init__(self, inline_depth=4, assume_asserts=True, ignore_calls=(), pure_calls=(), no_inline=(),
                 integer_dims=(), volatile_extra=(), stable_fields=(), param_symbols=True, split_asserts=False):
        self.inline_depth = inline_depth
        self.assume_asserts = assume_asserts
        self.ignore_calls = set(IGNORED_CALLS) | set(ignore_calls)
        self.pure_calls = set(pure_calls)
        self.no_inline = set(no_inline) | {'dprint'}
        self.integer_dims = tuple(integer_dims)
        self.volatile_extra = set(volatile_extra)
        self.stable_fields = set(stable_fields)
        self.param_symbols = param_symbols
        self.split_asserts = split_asserts


class Executor:
    def __init__(self, repo: Repo, ctx_cls: Optional[ClassInfo], func: FuncInfo, opts: Optional[Options] = None):
        self.repo = repo
        self.ctx = ctx_cls
        self.func = func.normalized()
        self.opts = opts or Options()
        self.volatile = self._volatile_fields()
        self.call_stack: List[FuncInfo] = []
        self.npaths = 0
        self._ordinals: Dict[int, str] = {}

    def depth(self) -> int:
        """inlining depth: frames of private helpers (`_name`) are not counted - a template method with a private hook, or
        a helper extracted from a helper, must not move what lies below it out of reach (recursion is excluded by the
        call-stack membership test, and at most 12 frames in all)"""
        if len(self.call_stack) >= 12:
            return 10 ** 6
        return sum(1 for f in self.call_stack if not (f.name.startswith('_') and not f.name.startswith('__')))

    def is_virtual(self, meth: str) -> bool:
        """a call self.<meth>() is left as a dynamic dispatch when a subclass of the context class overrides the method
        AND the context class's own definition is abstract (pass / docstring / raise NotImplementedError): the table
        is then about the base class's algorithm, whatever the hook does.  When the context class defines the hook
        concretely the table is about instances of exactly that class, and the hook is its own."""
        if self.ctx is None:
            return False
        k = ('virt', meth)
        if k not in self._ordinals:
            v = False
            for c in self.repo.all_classes():
                if c is not self.ctx and self.ctx in c.mro() and meth in c.methods:
                    v = True
                    break
            if v:
                own = self.ctx.lookup(meth)
                if own is not None:
                    body = [s_ for s_ in own.node.body if not (isinstance(s_, ast.Expr) and isinstance(s_.value, ast.Constant))]
                    abstract = (not body or all(isinstance(s_, ast.Pass) for s_ in body) or
                                (len(body) == 1 and isinstance(body[0], ast.Raise) and body[0].exc is not None and
                                 re.search(r'not_?implemented', ast.unparse(body[0].exc), re.I) is not None) or
                                any('abstractmethod' in d for d in own.decorators()))
                    v = abstract
            self._ordinals[k] = v
        return self._ordinals[k]

    def instance_attrs(self) -> set:
        """names assigned as self.<name> anywhere in the context class or its bases"""
        k = ('iattrs',)
        if k not in self._ordinals:
            out = set()
            if self.ctx is not None:
                for c in self.ctx.mro():
                    for g in c.methods.values():
                        for n in walk_local(g.node):
                            if isinstance(n, ast.Attribute) and isinstance(n.ctx, ast.Store) and isinstance(n.value, ast.Name) and n.value.id == 'self':
                                out.add(n.attr)
            self._ordinals[k] = out
        return self._ordinals[k]

    def ordinal(self, fctx: FuncInfo, node, st: Optional['State'] = None) -> str:
        """stable name of a loop / handler.  With a state: its position in the order in which the loops and
        handlers are first met along this path - no line numbers, and no function names either, so that a
        reference function and the code get the same names when their structure agrees *also when part of the
        code sits in an extracted helper*.  (Without a state: <function>.<pre-order index>, the old scheme.)"""
        if st is not None:
            seq = st.counters.get('@ordseq', ())
            if id(node) not in seq:
                seq = seq + (id(node),)
                st.counters['@ordseq'] = seq
            return str(seq.index(id(node)) + 1)
        k = id(node)
        if k not in self._ordinals:
            idx = 0
            found = None
            for n in ast.walk(fctx.node):
                if isinstance(n, (ast.For, ast.While, ast.ExceptHandler)):
                    idx += 1
                    if n is node:
                        found = idx
                        break
            # ast.walk is breadth-first; use a deterministic pre-order instead
            order = []
            def pre(x):
                for c in ast.iter_child_nodes(x):
                    if isinstance(c, (ast.For, ast.While, ast.ExceptHandler)):
                        order.append(c)
                    pre(c)
            pre(fctx.node)
            pos = [i for i, c in enumerate(order) if c is node]
            self._ordinals[k] = '%s%d' % (fctx.name.strip('_')[:12] if len(self.call_stack) > 1 else '', (pos[0] + 1) if pos else 0)
        return self._ordinals[k]

    # -- class-level facts --------------------------------------------------
    def _volatile_fields(self) -> set:
        """self fields that some *other* method of the class may write while this
        function is suspended at a yield"""
        vol = set(self.opts.volatile_extra)
        if self.ctx is None:
            return vol
        seen = set()
        methods = {}
        for c in self.ctx.mro():
            for mname, f in c.methods.items():
                if mname not in methods:
                    methods[mname] = f
        # private helpers that are only ever called from __init__ (directly or through such helpers)
        # run before any process exists: what they write is not volatile
        callers: Dict[str, set] = {}
        for mname, f in methods.items():
            for n in walk_local(f.node):
                if isinstance(n, ast.Call) and isinstance(n.func, ast.Attribute) and isinstance(n.func.value, ast.Name) \
                        and n.func.value.id == 'self' and n.func.attr in methods:
                    callers.setdefault(n.func.attr, set()).add(mname)
        init_only = set()
        changed = True
        while changed:
            changed = False
            for mname in methods:
                if mname in init_only or not mname.startswith('_') or mname.startswith('__'):
                    continue
                cs = callers.get(mname, set())
                if cs and all(c == '__init__' or c in init_only for c in cs):
                    init_only.add(mname)
                    changed = True
        # private helpers called only by the function under analysis (or by the constructor): they run as part of
        # it, not while it is suspended - what they write is what the function itself writes
        own_only = set()
        changed = True
        while changed:
            changed = False
            for mname in methods:
                if mname in own_only or mname in init_only or not mname.startswith('_') or mname.startswith('__'):
                    continue
                cs = callers.get(mname, set())
                if cs and all(c in ('__init__', self.func.name) or c in init_only or c in own_only for c in cs):
                    own_only.add(mname)
                    changed = True
        for mname, f in methods.items():
            if mname == '__init__' or mname in init_only or mname in own_only or mname == self.func.name or f.node is self.func.node:
                continue
            vol |= direct_self_writes(f.node)
        return vol - self.opts.stable_fields

    # -- entry ----------------------------------------------------------------
    def run(self) -> List[Path]:
        st = State()
        fn = self.func.node
        params = self.func.params
        for i, p in enumerate(params):
            if p == 'self':
                continue
            st.locals[p] = name('@%s' % p) if not self.opts.param_symbols else name('@p%d' % i)
            if p == 'env' and self.ctx is not None and self.func.name != '__init__' and 'env' in self.ctx.init_fields():
                # element processes are spawned as env.process(self.run(env)) with the element's own
                # environment (checked by the spawn-site rule): the parameter is self.env
                st.locals[p] = ast.Attribute(value=name('self'), attr='env', ctx=ast.Load())
        a = fn.args
        if a.vararg:
            st.locals[a.vararg.arg] = name('@varargs')
        if a.kwarg:
            st.locals[a.kwarg.arg] = name('@kwargs')
        for kw in a.kwonlyargs:
            st.locals[kw.arg] = name('@kw_' + kw.arg)
        self.call_stack = [self.func]
        outs = self.exec_block(fn.body, st, self.func)
        return [self._mkpath(s, ex) for s, ex in outs]

    def _mkpath(self, s: State, ex) -> Path:
        self.npaths += 1
        kind = ex[0]
        val = None
        line = ex[2] if len(ex) > 2 else 0
        if kind in ('return', 'raise') and ex[1] is not None:
            val = ex[1] if isinstance(ex[1], str) else term(ex[1])
        return Path(list(s.lits), list(s.effects), kind, val, line)

    # -- statements -------------------------------------------------------------
    def pure_stmt(self, s) -> bool:
        return False

    def exec_block(self, stmts, st: State, fctx: FuncInfo):
        """-> [(state, exit)]  exit = ('fall',) | ('return', ast|None, line) | ('raise', str, line) |
        ('break', None, line) | ('continue', None, line) | ('forever', None, line)"""
        outs = [(st, ('fall',))]
        for s in stmts:
            nxt = []
            for (cur, ex) in outs:
                if ex[0] != 'fall':
                    nxt.append((cur, ex))
                    continue
                nxt.extend(self.exec_stmt(s, cur, fctx))
            outs = nxt
            if len(outs) > 4000:
                raise AnalysisError('path explosion in %s' % self.func.where)
        return outs

    def exec_stmt(self, s, st: State, fctx: FuncInfo):
        ln = getattr(s, 'lineno', 0)
        if isinstance(s, ast.Expr):
            if isinstance(s.value, ast.Constant):
                return [(st, ('fall',))]
            return [(s2, ex or ('fall',)) for s2, _v, ex in self.ev(s.value, st, fctx, stmt_level=True)]
        if isinstance(s, ast.Pass):
            return [(st, ('fall',))]
        if isinstance(s, (ast.Assign, ast.AnnAssign)):
            if isinstance(s, ast.AnnAssign) and s.value is None:
                return [(st, ('fall',))]
            targets = s.targets if isinstance(s, ast.Assign) else [s.target]
            if len(targets) == 1 and isinstance(s.value, ast.IfExp) and not self.pure_stmt(s):
                # x = a if c else b   is   if c: x = a  else: x = b
                outs = []
                for s3, b, ex3 in self.branch(s.value.test, st, fctx, ln):
                    if ex3:
                        outs.append((s3, ex3))
                        continue
                    sub = ast.Assign(targets=s.targets if isinstance(s, ast.Assign) else [s.target],
                                     value=s.value.body if b else s.value.orelse)
                    ast.copy_location(sub, s)
                    outs.extend(self.exec_stmt(sub, s3, fctx))
                return outs
            if len(targets) == 1 and isinstance(targets[0], ast.Name) and _is_condition(s.value):
                # flag = <condition>: decided here, per path (a later `if flag:` / `return flag` then follows the path;
                # keeping the expression instead would re-read state that may have been written in between)
                outs = []
                for s3, b, ex3 in self.branch(s.value, st, fctx, ln):
                    if ex3:
                        outs.append((s3, ex3))
                        continue
                    s3.locals[targets[0].id] = ast.Constant(value=bool(b))
                    s3.counters.pop('@alias:' + targets[0].id, None)
                    outs.append((s3, ('fall',)))
                return outs
            outs = []
            for s2, v, ex in self.ev(s.value, st, fctx):
                if ex:
                    outs.append((s2, ex))
                    continue
                for t in targets:
                    self.assign(t, v, s2, fctx, ln)
                    if isinstance(t, ast.Name):
                        # x = <path>: x names the object found at that path now
                        if isinstance(s.value, (ast.Attribute, ast.Subscript)) and isinstance(v, (ast.Attribute, ast.Subscript, ast.Name)) \
                                and plain(term(v)).startswith('self.'):
                            s2.counters['@alias:' + t.id] = (plain(term(v)), len(s2.counters.get('@mutlog', ())))
                        else:
                            s2.counters.pop('@alias:' + t.id, None)
                outs.append((s2, ('fall',)))
            return outs
        if isinstance(s, ast.AugAssign):
            outs = []
            load_t = copy.deepcopy(s.target)
            _set_ctx(load_t, ast.Load())
            expr = ast.BinOp(left=load_t, op=s.op, right=s.value)
            for s2, v, ex in self.ev(expr, st, fctx):
                if ex:
                    outs.append((s2, ex))
                    continue
                self.assign(s.target, v, s2, fctx, ln)
                outs.append((s2, ('fall',)))
            return outs
        if isinstance(s, ast.If):
            outs = []
            for s2, b, ex in self.branch(s.test, st, fctx, ln):
                if ex:
                    outs.append((s2, ex))
                    continue
                outs.extend(self.exec_block(s.body if b else s.orelse, s2, fctx))
            return outs
        if isinstance(s, ast.Return):
            if s.value is None:
                return [(st, ('return', None, ln))]
            if _is_condition(s.value):
                # `return <condition>`: the value is the truth of the condition on each path (the same table as
                # `if <condition>: return True / else: return False`)
                return [(s3, ex3 or ('return', ast.Constant(value=bool(b)), ln)) for s3, b, ex3 in self.branch(s.value, st, fctx, ln)]
            return [(s2, ex or ('return', v, ln)) for s2, v, ex in self.ev(s.value, st, fctx)]
        if isinstance(s, ast.Raise):
            if s.exc is None:
                return [(st, ('raise', 'reraise', ln))]
            e = s.exc
            tname = term(e.func) if isinstance(e, ast.Call) else None
            if tname is not None and tname[:1].isupper() or (tname and '.' not in tname and tname != 'type'):
                # raise SomeError(...) : arguments are messages, not evaluated
                return [(st, ('raise', tname, ln))]
            outs = []
            for s2, v, ex in self.ev(e, st, fctx):
                if not ex and isinstance(v, ast.Call) and isinstance(v.func, ast.Name) and _is_exception_name(v.func.id):
                    outs.append((s2, ('raise', v.func.id, ln)))     # built by a helper: same exit as raise E(...)
                else:
                    outs.append((s2, ex or ('raise', term(v), ln)))
            return outs
        if isinstance(s, ast.Assert):
            if self.opts.split_asserts:
                outs = []
                for s2, b, ex in self.branch(s.test, st, fctx, ln):
                    if ex:
                        outs.append((s2, ex))
                    elif b:
                        outs.append((s2, ('fall',)))
                    else:
                        outs.append((s2, ('raise', 'AssertionError', ln)))
                return outs
            # assume mode: one path, the assertion is remembered as an effect and its
            # literals are assumed to hold
            st.effects.append(Effect('assert', value=terms.cond_str(self.subst(s.test, st, fctx)), lineno=ln,
                                     epoch=st.epoch))
            self._assume(s.test, st, fctx, ln)
            return [(st, ('fall',))]
        if isinstance(s, ast.While):
            return self.exec_loop(s, st, fctx)
        if isinstance(s, ast.For):
            return self.exec_loop(s, st, fctx)
        if isinstance(s, ast.Break):
            return [(st, ('break', None, ln))]
        if isinstance(s, ast.Continue):
            return [(st, ('continue', None, ln))]
        if isinstance(s, ast.Try):
            return self.exec_try(s, st, fctx)
        if isinstance(s, ast.With):
            outs = [(st, ('fall',))]
            for item in s.items:
                nxt = []
                for cur, ex in outs:
                    if ex[0] != 'fall':
                        nxt.append((cur, ex))
                        continue
                    for s2, v, ex2 in self.ev(item.context_expr, cur, fctx):
                        if ex2:
                            nxt.append((s2, ex2))
                            continue
                        if item.optional_vars is not None:
                            self.assign(item.optional_vars, v, s2, fctx, ln)
                        nxt.append((s2, ('fall',)))
                outs = nxt
            res = []
            for cur, ex in outs:
                if ex[0] != 'fall':
                    res.append((cur, ex))
                else:
                    res.extend(self.exec_block(s.body, cur, fctx))
            return res
        if isinstance(s, ast.Delete):
            for t in s.targets:
                k = plain(term(self.subst(t, st, fctx, load_target=False)))
                st.effects.append(Effect('del', target=k, lineno=ln, epoch=st.epoch))
                self._invalidate(st, k)
                st.bump(k)
            return [(st, ('fall',))]
        if isinstance(s, (ast.Import, ast.ImportFrom, ast.Global, ast.Nonlocal, ast.FunctionDef, ast.ClassDef)):
            if isinstance(s, ast.FunctionDef):
                st.locals[s.name] = name('@localfn_' + s.name)
            return [(st, ('fall',))]
        raise AnalysisError('unsupported statement %s at %s:%d' % (type(s).__name__, self.func.module.relpath, ln))

    # -- loops ------------------------------------------------------------------
    def _reduction(self, s, st: State, fctx: FuncInfo):
        """the accumulation idiom   acc = set()/[]/0 ; for x in S: [if c:] acc.add(e) / acc.append(e) / acc += e
        is the comprehension  {e for x in S if c} / [e ...] / acc0 + sum(e ...): one canonical form for both"""
        if not isinstance(s, ast.For) or s.orelse or not s.body:
            return None
        body = list(s.body)
        # leading temporaries (name = pure expression) are inlined into the statement that follows
        while len(body) > 1 and isinstance(body[0], ast.Assign) and len(body[0].targets) == 1 \
                and isinstance(body[0].targets[0], ast.Name) and not any(
                    isinstance(c, (ast.Call, ast.Yield, ast.YieldFrom, ast.NamedExpr)) and not (
                        isinstance(c, ast.Call) and ((isinstance(c.func, ast.Name) and c.func.id in PURE_FUNCS) or
                                                     (isinstance(c.func, ast.Attribute) and c.func.attr in PURE_METHODS)))
                    for c in ast.walk(body[0].value)):
            tmp, val = body[0].targets[0].id, body[0].value

            class _In(ast.NodeTransformer):
                def visit_Name(self, n):
                    if n.id == tmp and isinstance(n.ctx, ast.Load):
                        return copy.deepcopy(val)
                    return n
            body = [_In().visit(copy.deepcopy(x)) for x in body[1:]]
        if len(body) != 1:
            return None
        b = body[0]
        conds = []
        while isinstance(b, ast.If) and not b.orelse and len(b.body) == 1:
            conds.append(b.test)
            b = b.body[0]
        # if c: acc.append(e1) else: acc.append(e2)   is   acc.append(e1 if c else e2)
        if isinstance(b, ast.If) and len(b.body) == 1 and len(b.orelse) == 1:
            def _app(x):
                if isinstance(x, ast.Expr) and isinstance(x.value, ast.Call) and isinstance(x.value.func, ast.Attribute) \
                        and isinstance(x.value.func.value, ast.Name) and x.value.func.attr in ('add', 'append') \
                        and len(x.value.args) == 1 and not x.value.keywords:
                    return x.value.func.value.id, x.value.func.attr, x.value.args[0]
                return None
            p1, p2 = _app(b.body[0]), _app(b.orelse[0])
            if p1 and p2 and p1[:2] == p2[:2]:
                merged = ast.IfExp(test=b.test, body=p1[2], orelse=p2[2])
                b = ast.copy_location(ast.Expr(value=ast.Call(
                    func=ast.Attribute(value=ast.Name(id=p1[0], ctx=ast.Load()), attr=p1[1], ctx=ast.Load()),
                    args=[merged], keywords=[])), b)
                ast.fix_missing_locations(b)
        acc_attr = None
        if isinstance(b, ast.Expr) and isinstance(b.value, ast.Call) and isinstance(b.value.func, ast.Attribute) \
                and isinstance(b.value.func.value, ast.Attribute) and isinstance(b.value.func.value.value, ast.Name) \
                and b.value.func.value.value.id == 'self' and b.value.func.attr in ('add', 'append') \
                and len(b.value.args) == 1 and not b.value.keywords:
            # self.xs = [] ; for ..: self.xs.append(e)    (an attribute as the accumulator)
            acc_attr = b.value.func.value
            acc, kind, elt = '@self.' + acc_attr.attr, ('set' if b.value.func.attr == 'add' else 'list'), b.value.args[0]
        elif isinstance(b, ast.Expr) and isinstance(b.value, ast.Call) and isinstance(b.value.func, ast.Attribute) \
                and isinstance(b.value.func.value, ast.Name) and b.value.func.attr in ('add', 'append') \
                and len(b.value.args) == 1 and not b.value.keywords:
            acc, kind, elt = b.value.func.value.id, ('set' if b.value.func.attr == 'add' else 'list'), b.value.args[0]
        elif isinstance(b, ast.AugAssign) and isinstance(b.op, ast.Add) and isinstance(b.target, ast.Name):
            acc, kind, elt = b.target.id, 'sum', b.value
        elif isinstance(b, ast.Assign) and len(b.targets) == 1 and isinstance(b.targets[0], ast.Name) \
                and isinstance(b.value, ast.BinOp) and isinstance(b.value.op, ast.Add) and (
                    (isinstance(b.value.left, ast.Name) and b.value.left.id == b.targets[0].id) or
                    (isinstance(b.value.right, ast.Name) and b.value.right.id == b.targets[0].id)):
            acc, kind = b.targets[0].id, 'sum'
            elt = b.value.right if (isinstance(b.value.left, ast.Name) and b.value.left.id == acc) else b.value.left
        else:
            return None
        init = st.locals.get(acc) if acc_attr is None else st.heap.get('self.' + acc_attr.attr)
        if init is None:
            return None
        if kind == 'set' and not (isinstance(init, ast.Call) and isinstance(init.func, ast.Name) and init.func.id == 'set'
                                  and not init.args):
            return None
        if kind == 'list' and not (isinstance(init, ast.List) and not init.elts):
            return None
        if kind == 'sum' and not terms.is_number(init):
            return None
        for part in [elt, s.iter] + conds:
            for c in ast.walk(part):
                if isinstance(c, (ast.Yield, ast.YieldFrom, ast.NamedExpr)):
                    return None
                if isinstance(c, ast.Name) and c.id == acc:
                    return None
                if acc_attr is not None and isinstance(c, ast.Attribute) and c.attr == acc_attr.attr and isinstance(c.value, ast.Name) \
                        and c.value.id == 'self':
                    return None
                if isinstance(c, ast.Call):
                    f = c.func
                    nm = f.id if isinstance(f, ast.Name) else f.attr if isinstance(f, ast.Attribute) else ''
                    if nm not in PURE_FUNCS and nm not in PURE_METHODS:
                        # a call in the *element* of a list/set accumulation is kept verbatim inside the
                        # comprehension term, exactly as it is when the source has the comprehension
                        if kind in ('list', 'set') and part is elt:
                            continue
                        return None
        gens = [ast.comprehension(target=s.target, iter=s.iter, ifs=conds, is_async=0)]
        if kind == 'set':
            comp = ast.SetComp(elt=elt, generators=gens)
        elif kind == 'list':
            comp = ast.ListComp(elt=elt, generators=gens)
        else:
            comp = ast.BinOp(left=init, op=ast.Add(), right=ast.Call(func=ast.Name(id='sum', ctx=ast.Load()),
                             args=[ast.GeneratorExp(elt=elt, generators=gens)], keywords=[]))
            saved = st.locals.pop(acc)
        alts = self.ev(comp, st, fctx)
        if len(alts) != 1 or alts[0][2]:
            if kind == 'sum':
                st.locals[acc] = saved
            return None
        st2, v, _ = alts[0]
        if acc_attr is not None:
            tgt = copy.deepcopy(acc_attr)
            tgt.ctx = ast.Store()
            self.assign(tgt, v, st2, fctx, s.lineno)
        else:
            st2.locals[acc] = v
        return [(st2, ('fall',))]

    def _dict_fill(self, s, st: State, fctx: FuncInfo):
        """the fill idiom   for T in S: D1[k1] = e1 ; D2[k2] = e2 ...   (k_i, e_i pure expressions over the loop target,
        the D_i distinct and not read in the loop) is, for each D_i in turn,
            D_i = {k_i: e_i for T in S}            when D_i is known to be an empty dict at this point
            D_i.update({k_i: e_i for T in S})      otherwise
        one canonical form for the loop, the comprehension, dict.fromkeys and dict(enumerate(..))"""
        if not isinstance(s, ast.For) or s.orelse or not s.body:
            return None
        tnames = set(_names_in_target(s.target))
        if not tnames:
            return None
        fills = []
        for b in s.body:
            if not (isinstance(b, ast.Assign) and len(b.targets) == 1 and isinstance(b.targets[0], ast.Subscript)):
                return None
            keyx = b.targets[0].slice
            if not any(isinstance(n, ast.Name) and n.id in tnames for n in ast.walk(keyx)):
                return None
            d = b.targets[0].value
            if isinstance(d, ast.Name):
                if d.id in tnames:
                    return None
                cur, key = st.locals.get(d.id), d.id
                if cur is not None and not isinstance(cur, (ast.Call, ast.Dict, ast.DictComp)):
                    # an alias of something on the heap: look through it
                    key = plain(term(cur))
                    cur = st.heap.get(key)
            elif isinstance(d, (ast.Attribute, ast.Subscript)):
                key = plain(term(self.subst(d, st, fctx, load_target=False)))
                cur = st.heap.get(key)
            else:
                return None
            if any(isinstance(n, ast.Name) and n.id in tnames for n in ast.walk(d)):
                return None
            empty = (isinstance(cur, ast.Call) and isinstance(cur.func, ast.Name) and cur.func.id == 'dict'
                     and not cur.args and not cur.keywords) or (isinstance(cur, ast.Dict) and not cur.keys)
            if key in [k for k, _d, _kx, _v, _e in fills]:
                return None
            fills.append((key, d, keyx, b.value, empty))
        dnames = {ast.unparse(d) for _k, d, _kx, _v, _e in fills}
        for part in [v for _k, _d, _kx, v, _e in fills] + [kx for _k, _d, kx, _v, _e in fills] + [s.iter]:
            for c in ast.walk(part):
                if isinstance(c, (ast.Yield, ast.YieldFrom, ast.NamedExpr)):
                    return None
                if isinstance(c, (ast.Name, ast.Attribute, ast.Subscript)) and ast.unparse(c) in dnames:
                    return None
                if isinstance(c, ast.Call):
                    f = c.func
                    nm = f.id if isinstance(f, ast.Name) else f.attr if isinstance(f, ast.Attribute) else ''
                    if nm not in PURE_FUNCS and nm not in PURE_METHODS:
                        return None
        cur_st = st
        for key, d, keyx, val, empty in fills:
            comp = ast.DictComp(key=copy.deepcopy(keyx), value=copy.deepcopy(val),
                                generators=[ast.comprehension(target=copy.deepcopy(s.target), iter=copy.deepcopy(s.iter), ifs=[], is_async=0)])
            ast.fix_missing_locations(ast.copy_location(comp, s))
            if empty:
                alts = self.ev(comp, cur_st, fctx)
                if len(alts) != 1 or alts[0][2]:
                    return None
                cur_st, v, _ = alts[0]
                tgt = copy.deepcopy(d)
                tgt.ctx = ast.Store()
                self.assign(tgt, v, cur_st, fctx, s.lineno)
            else:
                call = ast.Expr(value=ast.Call(func=ast.Attribute(value=_load(d), attr='update', ctx=ast.Load()), args=[comp], keywords=[]))
                ast.fix_missing_locations(ast.copy_location(call, s))
                outs = self.exec_stmt(call, cur_st, fctx)
                if len(outs) != 1 or outs[0][1][0] != 'fall':
                    return None
                cur_st = outs[0][0]
        return [(cur_st, ('fall',))]

    def _unroll_constants(self, s, st: State, fctx: FuncInfo):
        """for x in ('a', 'b'): BODY   (a literal, or a class / module constant holding one, at most 8 constants, no
        break / continue in BODY) is BODY[x:='a'] ; BODY[x:='b']"""
        if not isinstance(s, ast.For) or s.orelse or not isinstance(s.target, ast.Name):
            return None
        it = s.iter
        consts = None
        if isinstance(it, (ast.Tuple, ast.List)):
            consts = it
        elif isinstance(it, ast.Attribute) and isinstance(it.value, ast.Name) and it.value.id in ('self', 'cls') and self.ctx is not None:
            r = self.ctx.lookup_attr(it.attr)
            if r is not None and isinstance(r[1], (ast.Tuple, ast.List)):
                consts = r[1]
        elif isinstance(it, ast.Name) and it.id not in st.locals:
            r = self.repo.resolve_name(fctx.module, it.id)
            if r and r[0] == 'global' and isinstance(r[2], (ast.Tuple, ast.List)):
                consts = r[2]
        if consts is None or not (1 <= len(consts.elts) <= 8) or not all(isinstance(e, ast.Constant) for e in consts.elts):
            return None
        if any(isinstance(n, (ast.Break, ast.Continue)) for b in s.body for n in ast.walk(b)):
            return None
        states = [(st, ('fall',))]
        for c in consts.elts:
            nxt = []
            for cur, ex in states:
                if ex[0] != 'fall':
                    nxt.append((cur, ex))
                    continue
                cur.locals[s.target.id] = copy.deepcopy(c)
                nxt.extend(self.exec_block(s.body, cur, fctx))
            states = nxt
        return states

    def exec_loop(self, s, st: State, fctx: FuncInfo):
        red = self._unroll_constants(s, st, fctx)
        if red is not None:
            return red
        red = self._reduction(s, st, fctx)
        if red is not None:
            return red
        red = self._dict_fill(s, st.fork(), fctx) if isinstance(s, ast.For) else None
        if red is not None:
            return red
        ln = s.lineno
        oid = self.ordinal(fctx, s, st)
        body_writes = block_writes(s.body + getattr(s, 'orelse', []))
        has_yield = any(isinstance(n, (ast.Yield, ast.YieldFrom)) for b in s.body for n in [b] + list(walk_local(b)))
        has_break = _has_break(s.body)
        # havoc: locals assigned in the loop, heap entries possibly written
        it = st.fork()
        pre_iter = None
        if isinstance(s, ast.For):
            alts = self.ev(s.iter, it, fctx)
            it, pre_iter, ex = alts[0]
            if ex:
                return [(it, ex)]
        pre_locals = dict(it.locals)
        self._havoc(it, s.body, fctx, oid, loop=s)
        if has_yield:
            # an arbitrary iteration of a loop that suspends starts after a suspension: what other processes may
            # change is read afresh there, and is not what a local holds that was loaded before the loop
            it.epoch += 1
            self._flush_volatile(it)
        # what the loop starts from: the values of its loop-carried locals on entry
        init_effects = []
        for nm, sym in it.counters.get('__carried__%s' % oid, []):
            if isinstance(s, ast.For) and nm in _names_in_target(s.target):
                continue
            if not _reads_first(s, nm, fctx.node):
                continue        # only read after the loop: what it held before the loop is not an input of the loop
            v0 = pre_locals.get(nm)
            init_effects.append(Effect('write', target=sym, value=term(v0) if v0 is not None else '@undef', lineno=ln,
                                       epoch=st.epoch, extra='loop-entry'))
        it.effects.extend(init_effects)
        after = it.fork()
        if isinstance(s, ast.For):
            # after the loop its target variables hold the values of the last iteration (or of the one that broke
            # out): named by position, not by the programmer's identifier
            for k_, nm_ in enumerate(_names_in_target(s.target)):
                after.locals[nm_] = name('@L%sx%d' % (oid, k_ + 1))
        iter_state = it.fork()
        iter_state.lits = []
        iter_state.effects = []
        if isinstance(s, ast.While):
            header = terms.cond_str(self.subst(s.test, iter_state.fork(), fctx))
            starts = []
            for s2, b, ex in self.branch(s.test, iter_state, fctx, ln):
                if ex or not b:
                    continue
                starts.append(s2)
            target = None
        else:
            header = term(terms.iter_canon(pre_iter))
            tgt = s.target
            tstr = ast.unparse(tgt)
            self.assign(tgt, None, iter_state, fctx, ln, loopvar='@it%s' % oid)
            target = tstr
            starts = [iter_state]
        paths = []
        carried = it.counters.get('__carried__%s' % oid, [])
        for s0 in starts:
            for s2, ex in self.exec_block(s.body, s0, fctx):
                if ex[0] in ('fall', 'continue', 'break'):
                    # what the iteration hands to the next one / to the code after the loop
                    for nm, sym in carried:
                        v = s2.locals.get(nm)
                        if v is not None:
                            vt = term(v)
                            if vt != sym and not (isinstance(s, ast.For) and nm in _names_in_target(s.target)):
                                s2.effects.append(Effect('write', target=sym, value=vt, lineno=ln, epoch=s2.epoch))
                p = self._mkpath(s2, ex if ex[0] != 'fall' else ('fall',))
                paths.append(p)
        region = Region('while' if isinstance(s, ast.While) else 'for', header, paths, ln, target, has_break)
        infinite = isinstance(s, ast.While) and isinstance(s.test, ast.Constant) and bool(s.test.value) and not has_break
        after.effects.append(Effect('loop', target=header, lineno=ln, epoch=st.epoch, region=region))
        if has_yield:
            after.epoch += 1
            self._flush_volatile(after)
        if infinite:
            return [(after, ('forever', None, ln))]
        outs = []
        if isinstance(s, ast.While) and not has_break:
            # on normal exit the test is false
            for s2, b, ex in self.branch(s.test, after, fctx, ln):
                if ex or b:
                    continue
                outs.extend(self.exec_block(s.orelse, s2, fctx) if s.orelse else [(s2, ('fall',))])
            if not outs:
                outs = [(after, ('fall',))]
        else:
            outs = self.exec_block(s.orelse, after, fctx) if getattr(s, 'orelse', None) and not has_break \
                else [(after, ('fall',))]
        return outs

    def _havoc(self, st: State, body, fctx, ln, loop=None):
        order: List[str] = []

        def pre(x):
            tgts = []
            if isinstance(x, ast.Assign):
                tgts = x.targets
            elif isinstance(x, (ast.AugAssign, ast.AnnAssign)):
                tgts = [x.target]
            elif isinstance(x, ast.For):
                tgts = [x.target]
            elif isinstance(x, ast.NamedExpr):
                tgts = [x.target]
            for t in tgts:
                for nm in _names_in_target(t):
                    if nm not in order:
                        order.append(nm)
            if isinstance(x, (ast.FunctionDef, ast.AsyncFunctionDef, ast.ClassDef, ast.Lambda)):
                return
            for c in ast.iter_child_nodes(x):
                pre(c)
        for n in body:
            pre(n)
        carried = []
        live = [nm for nm in order if loop is not None and _live_in(loop, nm, fctx.node)]
        rest = [nm for nm in order if nm not in live]
        for i, nm in enumerate(live):
            # loop-carried local: named by position, not by the programmer's identifier
            st.locals[nm] = name('@L%sv%d' % (ln, i + 1))
            carried.append((nm, '@L%sv%d' % (ln, i + 1)))
        for i, nm in enumerate(rest):
            st.locals[nm] = name('@L%st%d' % (ln, i + 1))
        st.counters['__carried__%s' % ln] = carried
        # heap: drop everything a write or a call in the body may change
        writes = block_writes(body)
        for k in list(st.heap):
            root = k.split('[')[0]
            parts = root.split('.')
            if len(parts) >= 2 and parts[0] == 'self' and (parts[1] in writes or '*' in writes):
                del st.heap[k]
            elif parts[0] != 'self':
                del st.heap[k]
        st.known = {}

    # -- try ----------------------------------------------------------------------
    def exec_try(self, s: ast.Try, st: State, fctx):
        ln = s.lineno
        outs = []
        # whether an exception reaches a handler is a nondeterministic choice, not a
        # condition of the state: give each alternative its own mode bit so that a
        # handler path and the normal path are never taken for the same region
        for h in s.handlers:
            self.ordinal(fctx, h, st)          # number the handlers before the alternatives fork
        st0 = st.fork()
        for h in s.handlers:
            st0.lits.append((('bit', '@raised:%s' % self.ordinal(fctx, h, st0)), False, h.lineno))
        normal = self.exec_block(s.body, st0, fctx)
        for h in s.handlers:
            # except self._ERRORS:  with a class-level tuple of exception classes
            if isinstance(h.type, ast.Attribute) and isinstance(h.type.value, ast.Name) and h.type.value.id in ('self', 'cls') and self.ctx is not None:
                r = self.ctx.lookup_attr(h.type.attr)
                if r is not None and isinstance(r[1], (ast.Tuple, ast.Name)):
                    h.type = copy.deepcopy(r[1])
        handled_types = []
        for h in s.handlers:
            if h.type is None:
                handled_types.append('*')
            elif isinstance(h.type, ast.Tuple):
                handled_types.extend(term(e) for e in h.type.elts)
            else:
                handled_types.append(term(h.type))
        for s2, ex in normal:
            if ex[0] == 'raise' and (ex[1] in handled_types):
                # explicit raise of a handled type inside the body: goes to the handler
                for h in s.handlers:
                    ht = [term(e) for e in h.type.elts] if isinstance(h.type, ast.Tuple) else [term(h.type)] if h.type else ['*']
                    if ex[1] in ht:
                        s3 = s2
                        s3.effects.append(Effect('except', target=ex[1], lineno=h.lineno, epoch=s3.epoch))
                        if h.name:
                            s3.locals[h.name] = name('@exc_%s' % ex[1])
                        outs.extend(self.exec_block(h.body, s3, fctx))
                        break
                continue
            if ex[0] == 'fall' and s.orelse:
                outs.extend(self.exec_block(s.orelse, s2, fctx))
            else:
                outs.append((s2, ex))
        # implicit exceptions raised by calls inside the body
        for h in s.handlers:
            hs = st.fork()
            self._havoc(hs, s.body, fctx, 'T' + self.ordinal(fctx, h, hs))
            # effects of the try body up to the exception are unknown: mark
            tn = ('|'.join(term(e) for e in h.type.elts) if isinstance(h.type, ast.Tuple) else term(h.type)) if h.type else '*'
            hs.effects.append(Effect('except', target=tn, lineno=h.lineno, epoch=hs.epoch, extra='implicit'))
            for h2 in s.handlers:
                hs.lits.append((('bit', '@raised:%s' % self.ordinal(fctx, h2, hs)), h2 is h, h.lineno))
            if any(isinstance(n, (ast.Yield, ast.YieldFrom)) for b in s.body for n in [b] + list(walk_local(b))):
                hs.epoch += 1
                self._flush_volatile(hs)
            if h.name:
                hs.locals[h.name] = name('@exc%s' % self.ordinal(fctx, h, hs))
            outs.extend(self.exec_block(h.body, hs, fctx))
        if s.finalbody:
            res = []
            for s2, ex in outs:
                for s3, ex3 in self.exec_block(s.finalbody, s2, fctx):
                    res.append((s3, ex if ex3[0] == 'fall' else ex3))
            outs = res
        return outs

    # -- assignment -------------------------------------------------------------------
    def assign(self, target, value, st: State, fctx, ln, loopvar=None):
        if isinstance(target, ast.Name):
            if value is None:
                value = name(loopvar or ('@undef_' + target.id))
            st.locals[target.id] = value
            return
        if isinstance(target, (ast.Tuple, ast.List)):
            if nt_value(value) is not None:
                value = ast.Tuple(elts=list(nt_value(value)[1]), ctx=ast.Load())      # unpacking a NamedTuple value
            for i, t in enumerate(target.elts):
                if isinstance(t, ast.Starred):
                    self.assign(t.value, name('@star%d' % ln), st, fctx, ln)
                    continue
                if value is not None and isinstance(value, (ast.Tuple, ast.List)) and len(value.elts) == len(target.elts) \
                        and not any(isinstance(e, ast.Starred) for e in value.elts):
                    v = value.elts[i]
                elif value is None:
                    v = name('%s[%d]' % (loopvar, i))
                else:
                    v = ast.Subscript(value=value, slice=ast.Constant(value=i), ctx=ast.Load())
                self.assign(t, v, st, fctx, ln, loopvar=None)
            return
        if isinstance(target, (ast.Attribute, ast.Subscript)):
            t2 = self.subst(target, st, fctx, load_target=False)
            key = plain(term(t2))
            if value is None:
                value = name(loopvar or '@undef')
            vterm = term(value)
            self._invalidate(st, key)
            st.heap[key] = value
            st.effects.append(Effect('write', target=key, value=vterm, lineno=ln, epoch=st.epoch))
            parts = key.split('[')[0].split('.')
            if '[' in key or len(parts) > 2:
                st.bump(key)              # an element / member of the object changed, not the binding itself
            st.known = {}
            return
        if isinstance(target, ast.Starred):
            return self.assign(target.value, value, st, fctx, ln)
        raise AnalysisError('unsupported assignment target at line %d' % ln)

    def _invalidate(self, st: State, key: str):
        """a write to `key` kills forwarded loads of possibly aliasing locations"""
        base = key.split('[')[0] if '[' in key else None
        for k in list(st.heap):
            if k == key:
                continue
            if k.startswith(key + '.') or k.startswith(key + '['):
                del st.heap[k]
            elif base is not None and (k.startswith(base + '[')):
                # two different string constants as the last subscript name different entries
                m1 = re.match(r"^(.*)\[('[^']*')\]$", key)
                m2 = re.match(r"^(.*)\[('[^']*')\]$", k)
                if m1 and m2 and m1.group(1) == m2.group(1) and m1.group(2) != m2.group(2):
                    continue
                del st.heap[k]
            elif key.startswith(k + '.') or key.startswith(k + '['):
                # writing inside an object whose whole value was forwarded
                del st.heap[k]

    def _flush_volatile(self, st: State):
        for k in list(st.heap):
            root = k.split('[')[0]
            parts = root.split('.')
            if parts[0] == 'self':
                if len(parts) >= 2 and (parts[1] in self.volatile or len(parts) > 2):
                    del st.heap[k]
            elif parts[0].startswith('@'):
                # fields of objects reached through symbols (packets): the packet in
                # hand is not touched by others while we hold it
                pass
            else:
                del st.heap[k]
        st.known = {}

    # -- conditions ---------------------------------------------------------------------
    def branch(self, test, st: State, fctx, ln, record=True):
        """-> [(state, bool, exit)] with short-circuit splitting"""
        if isinstance(test, ast.BoolOp):
            is_and = isinstance(test.op, ast.And)
            alts = [(st, None, None)]
            for v in test.values:
                nxt = []
                for cur, decided, ex in alts:
                    if ex or decided is not None:
                        nxt.append((cur, decided, ex))
                        continue
                    for s2, b, ex2 in self.branch(v, cur, fctx, ln, record):
                        if ex2:
                            nxt.append((s2, None, ex2))
                        elif is_and and not b:
                            nxt.append((s2, False, None))
                        elif (not is_and) and b:
                            nxt.append((s2, True, None))
                        else:
                            nxt.append((s2, None, None))
                alts = nxt
            return [(s2, (d if d is not None else is_and), ex) for s2, d, ex in alts]
        if isinstance(test, ast.UnaryOp) and isinstance(test.op, ast.Not):
            return [(s2, (not b) if ex is None else b, ex) for s2, b, ex in self.branch(test.operand, st, fctx, ln, record)]
        if isinstance(test, ast.Compare) and len(test.ops) > 1:
            parts = []
            l = test.left
            for op, r in zip(test.ops, test.comparators):
                parts.append(ast.Compare(left=l, ops=[op], comparators=[r]))
                l = r
            return self.branch(ast.BoolOp(op=ast.And(), values=parts), st, fctx, ln, record)
        outs = []
        for s2, v, ex in self.ev(test, st, fctx):
            if ex:
                outs.append((s2, None, ex))
                continue
            if isinstance(v, (ast.BoolOp,)) or (isinstance(v, ast.UnaryOp) and isinstance(v.op, ast.Not)) or (
                    isinstance(v, ast.Compare) and len(v.ops) > 1):
                # an inlined helper returned a compound condition: split it (already substituted)
                outs.extend(self._branch_value(v, s2, ln, record))
                continue
            atom, pol = atom_of(v)
            outs.extend(self._decide(atom, pol, s2, ln, record))
        return outs

    def _branch_value(self, v, st, ln, record):
        if isinstance(v, ast.BoolOp):
            is_and = isinstance(v.op, ast.And)
            alts = [(st, None)]
            for sub in v.values:
                nxt = []
                for cur, decided in alts:
                    if decided is not None:
                        nxt.append((cur, decided))
                        continue
                    for s2, b, _ in self._branch_value(sub, cur, ln, record):
                        if is_and and not b:
                            nxt.append((s2, False))
                        elif (not is_and) and b:
                            nxt.append((s2, True))
                        else:
                            nxt.append((s2, None))
                alts = nxt
            return [(s2, (d if d is not None else is_and), None) for s2, d in alts]
        if isinstance(v, ast.UnaryOp) and isinstance(v.op, ast.Not):
            return [(s2, not b, ex) for s2, b, ex in self._branch_value(v.operand, st, ln, record)]
        if isinstance(v, ast.Compare) and len(v.ops) > 1:
            parts = []
            l = v.left
            for op, r in zip(v.ops, v.comparators):
                parts.append(ast.Compare(left=l, ops=[op], comparators=[r]))
                l = r
            return self._branch_value(ast.BoolOp(op=ast.And(), values=parts), st, ln, record)
        atom, pol = atom_of(v)
        return self._decide(atom, pol, st, ln, record)

    def _decide(self, atom, pol, st: State, ln, record=True):
        """split on an atomic condition; prune what the path's literals already decide"""
        if atom[0] == 'const':
            return [(st, atom[1] == pol, None)]
        if atom[0] == 'none' and isinstance(atom[1], str) and len(atom[1]) > 1:
            # a value whose attribute this path has already read (a comparison of `t.key` decided earlier) is not None:
            # `victim = self._find(..)`, which returns `candidate` only after `candidate.key > ..`, then `victim is not None`
            t = atom[1]
            probe = t + '.'
            for a, _p, _l in st.lits:
                if a[0] in ('cmp', 'truthy', 'bit') and isinstance(a[1], str) and probe in a[1] and not any(
                        a[1][i - 1].isalnum() or a[1][i - 1] in '_@%' for i in [a[1].index(probe)] if i > 0):
                    return [(st, not pol, None)]
        from .regions import feasible
        outs = []
        for truth in (True, False):
            lit_pol = truth == pol       # atom polarity that makes the condition `truth`
            cand = st.lits + [(atom, lit_pol, ln)]
            if not feasible([(a, p) for a, p, _ in cand], self.opts.integer_dims):
                continue
            s2 = st.fork() if truth else st
            # (the False branch reuses st; True branch forked first)
            outs.append((s2, truth, lit_pol))
        res = []
        for s2, truth, lit_pol in outs:
            if not any(a == atom and p == lit_pol for a, p, _ in s2.lits):
                s2.lits.append((atom, lit_pol, ln))
            res.append((s2, truth, None))
        return res

    def _assume(self, test, st: State, fctx, ln):
        """add the literals of an asserted condition when it is a plain conjunction"""
        if isinstance(test, ast.BoolOp) and isinstance(test.op, ast.And):
            for v in test.values:
                self._assume(v, st, fctx, ln)
            return
        if isinstance(test, ast.BoolOp):
            return
        v = self.subst(test, st, fctx)
        if isinstance(v, (ast.BoolOp,)):
            return
        try:
            atom, pol = atom_of(v)
        except Exception:
            return
        if atom[0] == 'const':
            return
        st.lits.append((atom, pol, ln))

    # -- expressions ----------------------------------------------------------------------
    def subst(self, e, st: State, fctx, load_target=True):
        """pure substitution (no effects recorded): used for targets and display"""
        alts = self.ev(e, st.fork() if load_target else st, fctx, pure=True, is_target=not load_target)
        return alts[0][1]

    def ev(self, e, st: State, fctx: FuncInfo, stmt_level=False, pure=False, is_target=False):
        """-> [(state, value_ast, exit|None)]"""
        return _Ev(self, fctx, pure).go(e, st, stmt_level, is_target)


class _Ev:
    def __init__(self, ex: Executor, fctx: FuncInfo, pure: bool):
        self.x = ex
        self.fctx = fctx
        self.pure = pure

    def go(self, e, st, stmt_level=False, is_target=False):
        if is_target:
            # evaluate sub-expressions of the target but not the target load itself
            if isinstance(e, ast.Attribute):
                res = []
                for s2, v, ex in self.go(e.value, st):
                    res.append((s2, ast.Attribute(value=v, attr=e.attr, ctx=ast.Load()), ex))
                return res
            if isinstance(e, ast.Subscript):
                res = []
                for s2, v, ex in self.go(e.value, st):
                    for s3, i, ex2 in self.go(e.slice, s2):
                        res.append((s3, ast.Subscript(value=v, slice=i, ctx=ast.Load()), ex or ex2))
                return res
            return self.go(e, st)
        m = getattr(self, 'e_' + type(e).__name__, None)
        if m is None:
            return self.generic(e, st)
        if isinstance(e, ast.Call):
            return m(e, st, stmt_level)
        return m(e, st)

    # leaves
    def e_Constant(self, e, st):
        return [(st, e, None)]

    def e_Name(self, e, st):
        if e.id in st.locals:
            v = st.locals[e.id]
            al = st.counters.get('@alias:' + e.id)
            if al is not None and st.versions and isinstance(v, (ast.Subscript, ast.Attribute, ast.Name)):
                path, since = al
                log = st.counters.get('@mutlog', ())[since:]
                if any(path == m or path.startswith(m + '[') or path.startswith(m + '.') for m in log if m != path):
                    # the container the object was taken from changed: the slot may hold something else now,
                    # the local still names the object it was bound to - from here on it is a plain value
                    st.counters.pop('@alias:' + e.id, None)
                elif any(m == path or m.startswith(path + '[') or m.startswith(path + '.') for m in log):
                    v = self._refresh_alias(v, st)
            return [(st, v, None)]
        return [(st, self.resolve_global(e), None)]

    _SELF_FIELD = re.compile(r'^(self\.[A-Za-z_]\w*)((?:\$\d+)?(?:\$g\d+)?)((?:@\d+)?)$')

    def _refresh_alias(self, v, st):
        """a local bound to an object reached from self (q = self.queues[k]) names that *object*: in-place changes
        made since (q.append(x), self.queues[k].pop()) are visible through it, exactly as through the original
        path.  Bring the in-place version tags of such a reference chain up to date (rebinding self.queues itself
        does not touch them: the local keeps the old object)."""
        chain = v
        while isinstance(chain, (ast.Subscript, ast.Attribute)):
            chain = chain.value
        if not isinstance(chain, ast.Name):
            return v
        root = None
        if chain.id == 'self':
            # Attribute(self, field) at the bottom of the chain
            node = v
            parent = None
            while isinstance(node, (ast.Subscript, ast.Attribute)) and node.value is not chain:
                node = node.value
            if isinstance(node, ast.Attribute):
                root = 'self.' + node.attr
                ver = st.versions.get(root, 0)
                g = st.versions.get('*', 0)
                if not ver and not g:
                    return v
                v2 = copy.deepcopy(v)
                n2 = v2
                par = None
                while isinstance(n2, (ast.Subscript, ast.Attribute)) and not (isinstance(n2.value, ast.Name) and n2.value.id == 'self'):
                    par, n2 = n2, n2.value
                new = name(root + ('$%d' % ver if ver else '') + ('$g%d' % g if g else ''))
                if par is None:
                    return new
                par.value = new
                return v2
            return v
        m = self._SELF_FIELD.match(chain.id)
        if not m:
            return v
        root = m.group(1)
        ver = st.versions.get(root, 0)
        g = st.versions.get('*', 0)
        newid = root + ('$%d' % ver if ver else '') + ('$g%d' % g if g else '') + m.group(3)
        if newid == chain.id:
            return v
        v2 = copy.deepcopy(v)
        n2 = v2
        while isinstance(n2, (ast.Subscript, ast.Attribute)):
            if isinstance(n2.value, ast.Name):
                n2.value = name(newid)
                return v2
            n2 = n2.value
        return name(newid)

    def resolve_global(self, e: ast.Name):
        mod = self.fctx.module
        r = self.x.repo.resolve_name(mod, e.id)
        if r is None:
            return e
        if r[0] == 'ext':
            return name(r[1])
        if r[0] == 'func' and e.id.startswith('_'):
            # a private module-level function that only returns an expression of its parameters, used as a value
            # (sort key ...): the lambda it stands for
            fn = r[1].node
            body = [s_ for s_ in fn.body if not (isinstance(s_, ast.Expr) and isinstance(s_.value, ast.Constant))]
            if len(body) == 1 and isinstance(body[0], ast.Return) and body[0].value is not None and not fn.args.defaults \
                    and not fn.args.vararg and not fn.args.kwarg and not fn.args.kwonlyargs \
                    and not any(isinstance(n, (ast.Call, ast.Yield, ast.YieldFrom)) for n in ast.walk(body[0].value)):
                return ast.Lambda(args=ast.arguments(posonlyargs=[], args=[ast.arg(arg=a.arg) for a in fn.args.args], kwonlyargs=[],
                                                     kw_defaults=[], defaults=[]), body=copy.deepcopy(body[0].value))
        if r[0] == 'global':
            v = r[2]
            if isinstance(v, ast.Constant):
                return v
            # a private module constant holding a literal container of constants, or float('inf') and the like
            if e.id.startswith('_'):
                if isinstance(v, (ast.Tuple, ast.List)) and all(isinstance(x, ast.Constant) for x in v.elts):
                    return copy.deepcopy(v)
                if isinstance(v, ast.Call) and isinstance(v.func, ast.Name) and v.func.id in ('float', 'int') and len(v.args) == 1 \
                        and isinstance(v.args[0], ast.Constant) and not v.keywords:
                    return copy.deepcopy(v)
                # _size_of = operator.attrgetter('size') / itemgetter(1): the lambda it stands for
                if isinstance(v, ast.Call) and not v.keywords and len(v.args) == 1 and isinstance(v.args[0], ast.Constant):
                    fn_ = ast.unparse(v.func).split('.')[-1]
                    prm_ = ast.arguments(posonlyargs=[], args=[ast.arg(arg='_x')], kwonlyargs=[], kw_defaults=[], defaults=[])
                    if fn_ == 'attrgetter' and isinstance(v.args[0].value, str) and v.args[0].value.isidentifier():
                        return ast.Lambda(args=prm_, body=ast.Attribute(value=ast.Name(id='_x', ctx=ast.Load()), attr=v.args[0].value, ctx=ast.Load()))
                    if fn_ == 'itemgetter':
                        return ast.Lambda(args=prm_, body=ast.Subscript(value=ast.Name(id='_x', ctx=ast.Load()), slice=copy.deepcopy(v.args[0]), ctx=ast.Load()))
            # EventPriority(0) style constants
            if isinstance(v, ast.Call) and len(v.args) == 1 and isinstance(v.args[0], ast.Constant) and \
                    isinstance(v.func, ast.Name) and v.func.id[:1].isupper() and not v.keywords:
                return name(e.id)
            return name(e.id)
        return e

    def e_Attribute(self, e, st):
        res = []
        for s2, v, ex in self.go(e.value, st):
            if ex:
                res.append((s2, v, ex))
                continue
            res.extend(self.load_attr(v, e.attr, s2))
        return res

    def load_attr(self, v, attr, st):
        nt = nt_value(v)
        if nt is not None:
            try:
                ci = self.x.repo.find_class(nt[0])
            except Exception:
                ci = None
            if ci is not None:
                fields = ctor_params(ci) or []
                if attr in fields:
                    return [(st, nt[1][fields.index(attr)], None)]
                g = ci.property_getter(attr) if hasattr(ci, 'property_getter') else None
                if g is not None:
                    from .normalize import expression_of
                    e_ = expression_of(g.node)
                    if e_ is not None and e_[0] == ['self']:
                        class _F(ast.NodeTransformer):
                            def visit_Attribute(self_, n):
                                self_.generic_visit(n)
                                if isinstance(n.value, ast.Name) and n.value.id == 'self' and n.attr in fields:
                                    return copy.deepcopy(nt[1][fields.index(n.attr)])
                                return n
                        # the fields are values already: the property's expression over them, not evaluated again
                        return [(st, _F().visit(copy.deepcopy(e_[1])), None)]
        node = ast.Attribute(value=v, attr=attr, ctx=ast.Load())
        key = plain(term(node))
        if key in st.heap:
            return [(st, st.heap[key], None)]
        # property getter on self
        if isinstance(v, ast.Name) and v.id == 'self' and self.x.ctx is not None:
            g = self.x.ctx.property_getter(attr)
            if g is not None and g.name not in self.x.opts.no_inline:
                r = self.inline(g, [], {}, st, as_expr=True)
                if r is not None:
                    return r
        # a class-level constant (a private name nobody assigns on the instance): its value
        if isinstance(v, ast.Name) and v.id in ('self', 'cls') and self.x.ctx is not None and attr.startswith('_') and not attr.startswith('__'):
            r = self.x.ctx.lookup_attr(attr)
            if r is not None and attr not in self.x.instance_attrs():
                val = r[1]
                if isinstance(val, ast.Constant) or (isinstance(val, (ast.Tuple, ast.List)) and all(isinstance(e_, (ast.Constant, ast.Name)) for e_ in val.elts)):
                    return [(st, copy.deepcopy(val), None)]
        # module attribute through import alias (random.uniform etc. handled in Call)
        return [(st, self.tag(node, key, st), None)]

    def tag(self, node, key, st):
        """tag loads of state that may have changed: @k = after the k-th suspension (another process may have
        written it), $n = after the n-th in-place change of the object on this path"""
        root = key.split('[')[0]
        parts = root.split('.')
        if parts[-1] == 'now' and len(parts) >= 2 and parts[-2].endswith('env') or key in ('env.now',):
            return name('NOW@%d' % st.epoch) if st.epoch else name('NOW')
        if key == 'self._now' or key == 'self.now':
            return node
        full = term(node)
        if len(parts) == 2 and '[' not in key:
            v = st.versions.get(root, 0)
            g = st.versions.get('*', 0) if parts[0] == 'self' else 0
            if v or g:
                full = full + ('$%d' % v if v else '') + ('$g%d' % g if g else '')
                node = name(full)
        if st.epoch and parts[0] == 'self' and len(parts) >= 2:
            vol = parts[1] in self.x.volatile or (len(parts) > 2 and parts[1] not in self.x.opts.stable_fields)
            if vol:
                return name('%s@%d' % (full, st.epoch))
        return node

    def e_Subscript(self, e, st):
        res = []
        for s2, v, ex in self.go(e.value, st):
            if ex:
                res.append((s2, v, ex))
                continue
            for s3, i, ex2 in self.go(e.slice, s2):
                if ex2:
                    res.append((s3, i, ex2))
                    continue
                node = ast.Subscript(value=v, slice=i, ctx=ast.Load())
                key = plain(term(node))
                if key in s3.heap:
                    res.append((s3, s3.heap[key], None))
                elif isinstance(v, (ast.Tuple, ast.List)) and isinstance(i, ast.Constant) and isinstance(i.value, int) \
                        and -len(v.elts) <= i.value < len(v.elts):
                    res.append((s3, v.elts[i.value], None))
                elif nt_value(v) is not None and isinstance(i, ast.Constant) and isinstance(i.value, int) \
                        and -len(nt_value(v)[1]) <= i.value < len(nt_value(v)[1]):
                    res.append((s3, nt_value(v)[1][i.value], None))
                else:
                    res.append((s3, self.tag(node, key, s3), None))
        return res

    def e_Slice(self, e, st):
        parts = [e.lower, e.upper, e.step]
        alts = [(st, [], None)]
        for p in parts:
            nxt = []
            for cur, vals, ex in alts:
                if ex or p is None:
                    nxt.append((cur, vals + [None], ex))
                    continue
                for s2, v, ex2 in self.go(p, cur):
                    nxt.append((s2, vals + [v], ex2))
            alts = nxt
        return [(s2, ast.Slice(lower=v[0], upper=v[1], step=v[2]), ex) for s2, v, ex in alts]

    def seq(self, exprs, st):
        alts = [(st, [], None)]
        for p in exprs:
            nxt = []
            for cur, vals, ex in alts:
                if ex:
                    nxt.append((cur, vals, ex))
                    continue
                for s2, v, ex2 in self.go(p, cur):
                    nxt.append((s2, vals + [v], ex2))
            alts = nxt
        return alts

    def e_BinOp(self, e, st):
        return [(s2, ast.BinOp(left=v[0], op=e.op, right=v[1]) if not ex else None, ex)
                for s2, v, ex in self.seq([e.left, e.right], st)]

    def e_UnaryOp(self, e, st):
        return [(s2, ast.UnaryOp(op=e.op, operand=v), ex) for s2, v, ex in self.go(e.operand, st)]

    def e_BoolOp(self, e, st):
        # as a value: no splitting (conditions in `if` are split by branch()) unless a later
        # operand has an effect - then the short circuit decides whether the effect happens
        def impure(x):
            for c in ast.walk(x):
                if isinstance(c, (ast.Yield, ast.YieldFrom)):
                    return True
                if isinstance(c, ast.Call):
                    f = c.func
                    nm = f.id if isinstance(f, ast.Name) else f.attr if isinstance(f, ast.Attribute) else ''
                    if nm not in PURE_FUNCS and nm not in PURE_METHODS:
                        return True
            return False
        if not any(impure(v) for v in e.values[1:]):
            return [(s2, ast.BoolOp(op=e.op, values=v) if not ex else None, ex) for s2, v, ex in self.seq(e.values, st)]
        is_and = isinstance(e.op, ast.And)
        res = []
        ln = getattr(e, 'lineno', 0)
        first, rest = e.values[0], e.values[1:]
        for s2, b, ex in self.x.branch(first, st, self.fctx, ln):
            if ex:
                res.append((s2, None, ex))
                continue
            if b != is_and:
                # short circuit: the value is the first operand (known truthiness)
                res.append((s2, ast.Constant(value=b), None))
            else:
                nxt = rest[0] if len(rest) == 1 else ast.BoolOp(op=e.op, values=rest)
                res.extend(self.go(nxt, s2))
        return res

    def e_Compare(self, e, st):
        return [(s2, ast.Compare(left=v[0], ops=e.ops, comparators=v[1:]) if not ex else None, ex)
                for s2, v, ex in self.seq([e.left] + e.comparators, st)]

    def e_Tuple(self, e, st):
        return [(s2, ast.Tuple(elts=v, ctx=ast.Load()) if not ex else None, ex) for s2, v, ex in self.seq(e.elts, st)]

    def e_List(self, e, st):
        return [(s2, ast.List(elts=v, ctx=ast.Load()) if not ex else None, ex) for s2, v, ex in self.seq(e.elts, st)]

    def e_Set(self, e, st):
        return [(s2, ast.Set(elts=v) if not ex else None, ex) for s2, v, ex in self.seq(e.elts, st)]

    def e_Dict(self, e, st):
        ks = [k for k in e.keys]
        alts = self.seq([k for k in ks if k is not None] + e.values, st)
        res = []
        nk = len([k for k in ks if k is not None])
        for s2, v, ex in alts:
            if ex:
                res.append((s2, None, ex))
                continue
            kv = iter(v[:nk])
            keys = [next(kv) if k is not None else None for k in ks]
            res.append((s2, ast.Dict(keys=keys, values=v[nk:]), None))
        return res

    def e_Starred(self, e, st):
        return [(s2, ast.Starred(value=v, ctx=ast.Load()), ex) for s2, v, ex in self.go(e.value, st)]

    def e_IfExp(self, e, st):
        res = []
        for s2, b, ex in self.x.branch(e.test, st, self.fctx, getattr(e, 'lineno', 0)):
            if ex:
                res.append((s2, None, ex))
                continue
            res.extend(self.go(e.body if b else e.orelse, s2))
        return res

    def e_JoinedStr(self, e, st):
        return [(st, ast.Constant(value='<fstr>'), None)]

    def e_Lambda(self, e, st):
        # a free variable of the lambda that is a local of the enclosing function, bound exactly once there, is a
        # captured *value*: the lambda reads the same whatever the local is called (`origin = env.now; lambda: origin`).
        # The value is wrapped (`@captured(..)`), so that it stays different from the same expression written in the
        # lambda itself, which is evaluated when the lambda is called (`lambda: env.now`)
        bound = {a.arg for a in e.args.posonlyargs + e.args.args + e.args.kwonlyargs}
        if e.args.vararg:
            bound.add(e.args.vararg.arg)
        if e.args.kwarg:
            bound.add(e.args.kwarg.arg)
        free = {n.id for n in ast.walk(e.body) if isinstance(n, ast.Name) and isinstance(n.ctx, ast.Load)} - bound
        fn = self.fctx.node
        params = {a.arg for a in fn.args.posonlyargs + fn.args.args + fn.args.kwonlyargs}
        caps = {}
        for nm in free:
            if nm in params or nm not in st.locals:
                continue
            stores = [n for n in ast.walk(fn) if isinstance(n, ast.Name) and n.id == nm and isinstance(n.ctx, ast.Store)]
            if len(stores) == 1:
                caps[nm] = st.locals[nm]
        if not caps:
            return [(st, e, None)]

        class _Cap(ast.NodeTransformer):
            def visit_Name(self_, n):
                if isinstance(n.ctx, ast.Load) and n.id in caps:
                    return ast.copy_location(ast.Call(func=ast.Name(id='@captured', ctx=ast.Load()), args=[copy.deepcopy(caps[n.id])], keywords=[]), n)
                return n
        e2 = copy.deepcopy(e)
        e2.body = _Cap().visit(e2.body)
        return [(st, e2, None)]

    def e_NamedExpr(self, e, st):
        res = []
        for s2, v, ex in self.go(e.value, st):
            if not ex:
                s2.locals[e.target.id] = v
            res.append((s2, v, ex))
        return res

    def _comp(self, e, st):
        # comprehension: substitute free names, keep bound names
        bound = set()
        for g in e.generators:
            bound |= set(_names_in_target(g.target))
        sub = _Subst(self, st, bound)
        return [(st, sub.visit(copy.deepcopy(e)), None)]

    e_GeneratorExp = e_ListComp = e_SetComp = e_DictComp = _comp

    def e_Yield(self, e, st):
        ln = getattr(e, 'lineno', 0)
        res = []
        alts = self.go(e.value, st) if e.value is not None else [(st, ast.Constant(value=None), None)]
        for s2, v, ex in alts:
            if ex:
                res.append((s2, None, ex))
                continue
            if self.pure:
                res.append((s2, ast.Yield(value=v), None))
                continue
            k = s2.counters.get('yield', 0) + 1
            s2.counters['yield'] = k
            sym = '@yield#%d' % k
            s2.effects.append(Effect('yield', value=term(v), sym=sym, lineno=ln, epoch=s2.epoch))
            s2.epoch += 1
            self.x._flush_volatile(s2)
            res.append((s2, name(sym), None))
        return res

    def e_YieldFrom(self, e, st):
        # `yield from self._helper(...)` with a private, non-overridden generator method of the class: the helper's
        # statements run in the caller's process exactly as if they were written in place (its yields are the
        # caller's yields, its return value is the value of the expression) - execute its body inline
        v = e.value
        x = self.x
        if not self.pure and isinstance(v, ast.Call) and isinstance(v.func, ast.Attribute) and isinstance(v.func.value, ast.Name) \
                and v.func.value.id == 'self' and x.ctx is not None and v.func.attr.startswith('_') \
                and not v.func.attr.startswith('__'):
            target = x.ctx.lookup(v.func.attr)
            if target is not None and target.is_generator() and not x.is_virtual(v.func.attr) \
                    and v.func.attr not in x.opts.no_inline and x.depth() < x.opts.inline_depth \
                    and target.normalized() not in x.call_stack:
                res = []
                argexprs = list(v.args) + [k.value for k in v.keywords]
                for s2, vals, ex2 in self.seq(argexprs, st):
                    if ex2:
                        res.append((s2, None, ex2))
                        continue
                    args = vals[:len(v.args)]
                    kwargs = {k.arg: val for k, val in zip(v.keywords, vals[len(v.args):])}
                    out = self.inline(target, args, kwargs, s2)
                    if out is None:
                        res = None
                        break
                    res.extend(out)
                if res is not None:
                    return res
        return self.e_Yield(ast.Yield(value=e.value, lineno=getattr(e, 'lineno', 0)), st)

    def e_Await(self, e, st):
        return self.go(e.value, st)

    def generic(self, e, st):
        return [(st, e, None)]

    # -- calls ------------------------------------------------------------------------
    def e_Call(self, e, st, stmt_level=False):
        ln = getattr(e, 'lineno', 0)
        x = self.x
        f = e.func
        # receiver / function expression
        recv_alts = [(st, None, None)]
        if isinstance(f, ast.Attribute):
            recv_alts = self.go(f.value, st)
        res = []
        for s1, recv, ex in recv_alts:
            if ex:
                res.append((s1, None, ex))
                continue
            # arguments
            argexprs = list(e.args) + [k.value for k in e.keywords]
            for s2, vals, ex2 in self.seq(argexprs, s1):
                if ex2:
                    res.append((s2, None, ex2))
                    continue
                args = vals[:len(e.args)]
                kwargs = []
                for k, v in zip(e.keywords, vals[len(e.args):]):
                    if k.arg is None and isinstance(v, ast.Call) and isinstance(v.func, ast.Name) and v.func.id == 'dict' \
                            and not v.args and all(kk.arg for kk in v.keywords):
                        kwargs.extend((kk.arg, kk.value) for kk in v.keywords)       # f(**dict(a=1, b=2)) is f(a=1, b=2)
                    elif k.arg is None and isinstance(v, ast.Dict) and v.keys and all(
                            isinstance(kk, ast.Constant) and isinstance(kk.value, str) for kk in v.keys):
                        kwargs.extend((kk.value, vv) for kk, vv in zip(v.keys, v.values))
                    else:
                        kwargs.append((k.arg, v))
                res.extend(self.call(e, f, recv, args, kwargs, s2, ln, stmt_level))
        return res

    def call(self, e, f, recv, args, kwargs, st, ln, stmt_level):
        x = self.x
        # --- name calls
        if isinstance(f, ast.Name):
            fname = f.id
            if fname in st.locals:
                fv = st.locals[fname]
                return self.opaque_call(term(fv), fv, args, kwargs, st, ln)
            if fname == 'super':
                return [(st, name('super()'), None)]
            r = x.repo.resolve_name(self.fctx.module, fname)
            if r and r[0] == 'ext':
                fname = r[1]
            if fname == 'vars' and len(args) == 1 and not kwargs:
                return self.load_attr(args[0], '__dict__', st)                 # vars(o) is o.__dict__
            if fname == 'getattr' and len(args) == 2 and not kwargs and isinstance(args[1], ast.Constant) and isinstance(args[1].value, str) \
                    and args[1].value.isidentifier():
                return self.load_attr(args[0], args[1].value, st)              # getattr(o, 'x') is o.x
            if fname == 'setattr' and len(args) == 3 and not kwargs and isinstance(args[1], ast.Constant) and isinstance(args[1].value, str) \
                    and args[1].value.isidentifier() and not self.pure:
                tgt = ast.Attribute(value=args[0], attr=args[1].value, ctx=ast.Store())   # setattr(o, 'x', v) is o.x = v
                x.assign(tgt, args[2], st, self.fctx, ln)
                return [(st, ast.Constant(value=None), None)]
            if fname in ('itemgetter', 'operator.itemgetter') and len(args) == 1 and not kwargs and isinstance(args[0], ast.Constant):
                # operator.itemgetter(k) is lambda x: x[k]
                return [(st, ast.Lambda(args=ast.arguments(posonlyargs=[], args=[ast.arg(arg='_x')], kwonlyargs=[], kw_defaults=[], defaults=[]),
                                        body=ast.Subscript(value=ast.Name(id='_x', ctx=ast.Load()), slice=args[0], ctx=ast.Load())), None)]
            if fname in ('attrgetter', 'operator.attrgetter') and len(args) == 1 and not kwargs and isinstance(args[0], ast.Constant) \
                    and isinstance(args[0].value, str) and args[0].value.isidentifier():
                return [(st, ast.Lambda(args=ast.arguments(posonlyargs=[], args=[ast.arg(arg='_x')], kwonlyargs=[], kw_defaults=[], defaults=[]),
                                        body=ast.Attribute(value=ast.Name(id='_x', ctx=ast.Load()), attr=args[0].value, ctx=ast.Load())), None)]
            if _is_exception_name(fname) and fname not in st.locals:
                # constructing an exception object has no effect; its arguments are messages
                return [(st, ast.Call(func=name(fname), args=[], keywords=[]), None)]
            if fname == 'map' and len(args) == 2 and not kwargs and isinstance(args[0], ast.Lambda) and len(args[0].args.args) == 1 \
                    and not args[0].args.defaults:
                # map(f, S) is (f(x) for x in S)
                prm = args[0].args.args[0].arg

                class _B(ast.NodeTransformer):
                    def visit_Name(self_, n):
                        if n.id == prm and isinstance(n.ctx, ast.Load):
                            return ast.Name(id='_mx', ctx=ast.Load())
                        return n
                body = _B().visit(copy.deepcopy(args[0].body))
                return [(st, ast.GeneratorExp(elt=body, generators=[ast.comprehension(target=ast.Name(id='_mx', ctx=ast.Store()),
                                                                                      iter=args[1], ifs=[], is_async=0)]), None)]
            if fname in PURE_FUNCS or fname in x.opts.pure_calls or fname in PURE_QUALIFIED:
                return [(st, ast.Call(func=name(fname), args=args,
                                      keywords=[ast.keyword(arg=k, value=v) for k, v in kwargs]), None)]
            if r and r[0] == 'func' and x.depth() < x.opts.inline_depth and r[1].name not in x.opts.no_inline \
                    and not r[1].is_generator():
                out = self.inline(r[1], args, dict(kwargs), st, receiver=None)
                if out is not None:
                    return out
            if r and r[0] == 'class':
                # constructor call: effect (it may schedule events etc.).  Arguments are put into the order of the
                # constructor's parameters: Packet(t, size=s) and Packet(time=t, size=s) are the same call
                args, kwargs = bind_keywords(ctor_params(r[1]), args, kwargs)
                if is_private_namedtuple(r[1]) and not kwargs and len(args) == len(ctor_params(r[1]) or ()):
                    # a private NamedTuple is a tuple with named fields: a pure value, no effect
                    return [(st, ast.Call(func=name('@nt:' + r[1].name), args=list(args), keywords=[]), None)]
                return self.effect_call(r[1].name, name(r[1].name), args, kwargs, st, ln)
            return self.effect_call(fname, name(fname), args, kwargs, st, ln)
        # --- attribute calls
        if isinstance(f, ast.Attribute):
            meth = f.attr
            rterm = term(recv)
            # super().m(...)
            if rterm == 'super()' and x.ctx is not None and self.fctx.cls is not None:
                target = x.ctx.lookup_after(self.fctx.cls, meth)
                if target is None:
                    # e.g. list.append / object.__init__
                    return self.effect_call('super().' + meth, ast.Attribute(value=recv, attr=meth, ctx=ast.Load()),
                                            args, kwargs, st, ln)
                if x.depth() < x.opts.inline_depth and target.normalized() not in x.call_stack and not target.is_generator() \
                        and meth not in x.opts.no_inline:
                    out = self.inline(target, args, dict(kwargs), st)
                    if out is not None:
                        return out
                return self.effect_call('super().' + meth, ast.Attribute(value=recv, attr=meth, ctx=ast.Load()),
                                        args, kwargs, st, ln)
            # self.m(...)
            if rterm == 'self' and x.ctx is not None:
                bc = x.ctx.bound_class(meth)
                if bc is not None:
                    return self.effect_call(bc, name(bc), [name('self')] + args, kwargs, st, ln)
                target = x.ctx.lookup(meth)
                if target is not None and x.is_virtual(meth):
                    # overridden in a subclass of the context class: dynamic dispatch, do not
                    # inline the base body; the call may change any field of self
                    out = self.effect_call('self.' + meth, ast.Attribute(value=recv, attr=meth, ctx=ast.Load()),
                                           args, kwargs, st, ln)
                    for s2, _v, _e in out:
                        for k in list(s2.heap):
                            if k.startswith('self.'):
                                del s2.heap[k]
                    return out
                if target is not None and meth not in x.opts.no_inline:
                    if target.is_generator():
                        # generator construction: a pure term; the effect happens where it is spawned
                        return [(st, ast.Call(func=ast.Attribute(value=recv, attr=meth, ctx=ast.Load()), args=args,
                                              keywords=[ast.keyword(arg=k, value=v) for k, v in kwargs]), None)]
                    if x.depth() < x.opts.inline_depth and target.normalized() not in x.call_stack:
                        out = self.inline(target, args, dict(kwargs), st)
                        if out is not None:
                            return out
                    # not inlined: effect + havoc of its transitive write set
                    out = self.effect_call('self.' + meth, ast.Attribute(value=recv, attr=meth, ctx=ast.Load()),
                                           args, kwargs, st, ln)
                    w = transitive_self_writes(x.ctx, target)
                    for s2, _v, _e in out:
                        for k in list(s2.heap):
                            p = k.split('[')[0].split('.')
                            if p[0] == 'self' and len(p) > 1 and p[1] in w:
                                del s2.heap[k]
                    return out
                fld = x.ctx.init_fields().get(meth) if target is None else None
                if meth in PURE_METHODS or ('self.' + meth) in x.opts.pure_calls:
                    return [(st, ast.Call(func=ast.Attribute(value=recv, attr=meth, ctx=ast.Load()), args=args,
                                          keywords=[ast.keyword(arg=k, value=v) for k, v in kwargs]), None)]
                return self.effect_call('self.' + meth, ast.Attribute(value=recv, attr=meth, ctx=ast.Load()),
                                        args, kwargs, st, ln)
            # Cls.m(...) / module.f(...) / module.Cls(...): the receiver is a class or a module of the repository
            sr = self.static_ref(f.value, st)
            if sr is not None:
                kind, obj = sr
                if kind == 'module':
                    r2 = x.repo.resolve_name(obj, meth)
                    if r2 and r2[0] == 'class':
                        a2, k2 = bind_keywords(ctor_params(r2[1]), args, kwargs)
                        return self.effect_call(r2[1].name, name(r2[1].name), a2, k2, st, ln)
                    if r2 and r2[0] == 'func' and x.depth() < x.opts.inline_depth and r2[1].name not in x.opts.no_inline \
                            and not r2[1].is_generator():
                        out = self.inline(r2[1], args, dict(kwargs), st, receiver=None)
                        if out is not None:
                            return out
                    if r2 and r2[0] == 'func':
                        return self.effect_call(meth, name(meth), args, kwargs, st, ln)
                elif kind == 'class':
                    target = obj.lookup(meth)
                    if target is not None and not target.is_generator() and x.depth() < x.opts.inline_depth \
                            and target.normalized() not in x.call_stack and meth not in x.opts.no_inline:
                        decs = target.decorators()
                        out = None
                        if 'staticmethod' in decs:
                            out = self.inline(target, args, dict(kwargs), st, receiver=None)
                        elif args and term(args[0]) == 'self' and x.ctx is not None and obj in x.ctx.mro() and 'classmethod' not in decs:
                            # explicit base call  Base.m(self, ...): what super().m(...) resolves to when Base is next
                            out = self.inline(target, args[1:], dict(kwargs), st)
                        if out is not None:
                            return out
            # X.pop(k) is  v = X[k]; del X[k]  (dict key or list index alike)
            if meth == 'pop' and len(args) == 1 and not kwargs and not self.pure:
                node = ast.Subscript(value=recv, slice=args[0], ctx=ast.Load())
                key = plain(term(node))
                val = st.heap[key] if key in st.heap else self.tag(node, key, st)
                st.effects.append(Effect('del', target=key, lineno=ln, epoch=st.epoch))
                x._invalidate(st, key)
                st.heap.pop(key, None)
                st.bump(key)
                st.known = {}
                return [(st, val, None)]
            # module function through import (random.uniform, heapq.heappush ...)
            full = rterm + '.' + meth
            if meth in PURE_METHODS or full in x.opts.pure_calls or full == 'dict.fromkeys' or full in PURE_QUALIFIED:
                return [(st, ast.Call(func=ast.Attribute(value=recv, attr=meth, ctx=ast.Load()), args=args,
                                      keywords=[ast.keyword(arg=k, value=v) for k, v in kwargs]), None)]
            if kwargs:
                defs = [g for g in x.repo.all_functions() if g.name == meth and g.cls is not None]
                if len(defs) == 1 and not defs[0].node.args.vararg:
                    args, kwargs = bind_keywords([p_ for p_ in defs[0].params if p_ not in ('self', 'cls')], args, kwargs)
            out = self.effect_call(full, ast.Attribute(value=recv, attr=meth, ctx=ast.Load()), args, kwargs, st, ln)
            # a call on an object may change that object's fields
            prt = plain(rterm)
            for s2, _v, _e in out:
                for k in list(s2.heap):
                    if k.startswith(prt + '.') or k.startswith(prt + '[') or k == prt:
                        if meth in MUTATORS or rterm.startswith('self.'):
                            s2.heap.pop(k, None)
            return out
        # --- anything else (call of a call, subscript ...)
        alts = self.go(f, st)
        res = []
        for s2, fv, ex in alts:
            if ex:
                res.append((s2, None, ex))
            else:
                res.extend(self.opaque_call(term(fv), fv, args, kwargs, s2, ln))
        return res

    def static_ref(self, e, st, depth=0):
        """('class', ClassInfo) | ('module', Module) when the expression names a class / module of the repository"""
        repo = self.x.repo
        if depth > 4:
            return None
        if isinstance(e, ast.Name):
            if e.id in st.locals or e.id == 'self':
                return None
            try:
                r = repo.resolve_name(self.fctx.module, e.id)
            except Exception:  # pragma: no cover
                return None
            if r and r[0] == 'class':
                return ('class', r[1])
            if r and r[0] == 'module':
                return ('module', r[1])
            if r and r[0] == 'ext' and r[1] in repo.modules:
                return ('module', repo.modules[r[1]])
            return None
        if isinstance(e, ast.Attribute):
            base = self.static_ref(e.value, st, depth + 1)
            if base and base[0] == 'module':
                r = repo.resolve_name(base[1], e.attr)
                if r and r[0] == 'class':
                    return ('class', r[1])
                if r and r[0] == 'module':
                    return ('module', r[1])
                sub = repo.modules.get(base[1].name + '.' + e.attr)
                if sub is not None:
                    return ('module', sub)
        return None

    def opaque_call(self, callee, fv, args, kwargs, st, ln):
        return self.effect_call(callee, fv, args, kwargs, st, ln)

    def effect_call(self, callee, fnode, args, kwargs, st, ln):
        node = ast.Call(func=fnode, args=args, keywords=[ast.keyword(arg=k, value=v) for k, v in kwargs])
        if self.pure:
            return [(st, node, None)]
        short = callee.split('.')[-1]
        if callee in self.x.opts.ignore_calls or short in self.x.opts.ignore_calls:
            return [(st, ast.Constant(value=None), None)]
        if callee in self.x.opts.pure_calls:
            return [(st, node, None)]
        callee = plain(callee)
        if short in ('add_nodes_from', 'add_edges_from') and args:
            args = [terms.iter_canon(args[0], consumed_at_once=True)] + list(args[1:])     # networkx: only iterated
        k = st.counters.get(callee, 0) + 1
        st.counters[callee] = k
        aterms = [term(a) for a in args]
        sym = '@%s(%s)#%d' % (callee, ','.join(aterms), k)
        st.effects.append(Effect('call', target=callee, args=aterms, kwargs=[(kk, term(v)) for kk, v in kwargs],
                                 sym=sym, lineno=ln, epoch=st.epoch))
        cparts = callee.split('[')[0].split('.')
        if len(cparts) >= 3 or '[' in callee:
            st.bump(callee)               # a method call on the object behind root.field may change it in place
        elif len(cparts) == 2 and cparts[0] == 'self':
            st.versions['*'] = st.versions.get('*', 0) + 1      # un-inlined self call: any field may change
        st.known = {}
        return [(st, name(sym), None)]

    def inline(self, target: FuncInfo, args, kwargs, st: State, receiver='self', as_expr=False):
        x = self.x
        target = target.normalized()
        fn = target.node
        a = fn.args
        if a.vararg or a.kwarg:
            return None
        params = [p.arg for p in a.posonlyargs + a.args]
        if params and params[0] == 'self':
            params = params[1:]
        elif any(d in ('staticmethod',) for d in target.decorators()):
            pass
        elif any(d in ('classmethod',) for d in target.decorators()):
            params = params[1:]
        if len(args) > len(params):
            return None
        binding = {}
        defaults = a.defaults
        dmap = {}
        allp = [p.arg for p in a.posonlyargs + a.args]
        for p, d in zip(allp[len(allp) - len(defaults):], defaults):
            dmap[p] = d
        for i, p in enumerate(params):
            if i < len(args):
                binding[p] = args[i]
            elif p in kwargs:
                binding[p] = kwargs[p]
            elif p in dmap:
                binding[p] = dmap[p]
            else:
                return None
        for kwa, d in zip(a.kwonlyargs, a.kw_defaults):
            if kwa.arg in kwargs:
                binding[kwa.arg] = kwargs[kwa.arg]
            elif d is not None:
                binding[kwa.arg] = d
            else:
                return None
        saved_locals = st.locals
        st.locals = dict(binding)
        x.call_stack.append(target)
        try:
            outs = x.exec_block(fn.body, st, target)
        finally:
            x.call_stack.pop()
        res = []
        for s2, ex in outs:
            s2.locals = dict(saved_locals)
            if ex[0] == 'fall':
                res.append((s2, ast.Constant(value=None), None))
            elif ex[0] == 'return':
                res.append((s2, ex[1] if ex[1] is not None else ast.Constant(value=None), None))
            elif ex[0] == 'raise':
                res.append((s2, None, ex))
            elif ex[0] == 'forever':
                res.append((s2, None, ex))
            else:
                raise AnalysisError('unexpected exit %s from inlined %s' % (ex[0], target.qualname))
        return res


class _Subst(ast.NodeTransformer):
    """substitution inside comprehensions / lambdas (no effects)"""

    def __init__(self, ev: _Ev, st: State, bound: set):
        self.ev = ev
        self.st = st
        self.bound = bound

    def visit_Name(self, n):
        if isinstance(n.ctx, ast.Load) and n.id not in self.bound and n.id in self.st.locals:
            return copy.deepcopy(self.st.locals[n.id])
        if isinstance(n.ctx, ast.Load) and n.id not in self.bound:
            # an import alias (import networkx as nx) reads the same inside a comprehension as at statement level
            try:
                r = self.ev.x.repo.resolve_name(self.ev.fctx.module, n.id)
            except Exception:  # pragma: no cover
                r = None
            if r and r[0] == 'ext' and '.' not in r[1] and r[1] != n.id:
                return ast.copy_location(ast.Name(id=r[1], ctx=ast.Load()), n)
            if r and r[0] == 'global' and isinstance(r[2], ast.Constant):
                return copy.deepcopy(r[2])            # a module constant reads the same inside a comprehension
        return n

    def visit_Call(self, n):
        # the method name of a call is not a load of state: visit the receiver and the arguments only
        if isinstance(n.func, ast.Attribute):
            n.func.value = self.visit(n.func.value)
        else:
            if isinstance(n.func, ast.Name) and n.keywords and all(k.arg for k in n.keywords):
                # a constructor of the repository: keywords into parameter order, as at statement level
                try:
                    r = self.ev.x.repo.resolve_name(self.ev.fctx.module, n.func.id)
                except Exception:  # pragma: no cover
                    r = None
                if r and r[0] == 'class':
                    a2, k2 = bind_keywords(ctor_params(r[1]), list(n.args), [(k.arg, k.value) for k in n.keywords])
                    n.args = a2
                    n.keywords = [ast.keyword(arg=k, value=v) for k, v in k2]
            n.func = self.visit(n.func)
        n.args = [self.visit(a) for a in n.args]
        for k in n.keywords:
            k.value = self.visit(k.value)
        return n

    def visit_Attribute(self, n):
        n = self.generic_visit(n)
        if isinstance(n.ctx, ast.Load):
            key = plain(term(n))
            if key in self.st.heap:
                return copy.deepcopy(self.st.heap[key])
            # a private class-level constant read through self, as at statement level
            x = self.ev.x
            if isinstance(n.value, ast.Name) and n.value.id in ('self', 'cls') and x.ctx is not None and n.attr.startswith('_') \
                    and not n.attr.startswith('__'):
                r = x.ctx.lookup_attr(n.attr)
                if r is not None and n.attr not in x.instance_attrs() and isinstance(r[1], ast.Constant):
                    return copy.deepcopy(r[1])
            if isinstance(n.value, ast.Name) and n.value.id == 'self' and self.ev.x.ctx is not None:
                g = self.ev.x.ctx.property_getter(n.attr)
                if g is not None:
                    body = [s for s in g.node.body if not (isinstance(s, ast.Expr) and isinstance(s.value, ast.Constant))]
                    if len(body) == 1 and isinstance(body[0], ast.Return) and body[0].value is not None:
                        return _Subst(self.ev, State(), set()).visit(copy.deepcopy(body[0].value))
            return self.ev.tag(n, key, self.st)
        return n


# ----------------------------------------------------------------------------
# write sets
# ----------------------------------------------------------------------------

def _set_ctx(n, ctx):
    if hasattr(n, 'ctx'):
        n.ctx = ctx


def _names_in_target(t) -> List[str]:
    if isinstance(t, ast.Name):
        return [t.id]
    if isinstance(t, (ast.Tuple, ast.List)):
        out = []
        for e in t.elts:
            out.extend(_names_in_target(e))
        return out
    if isinstance(t, ast.Starred):
        return _names_in_target(t.value)
    return []


_SEQ_CACHE: Dict[int, tuple] = {}


def _name_seq(fn):
    """evaluation-order numbers of the Name nodes of a function: id(node) -> (seq, is_read).  Structural (the
    right-hand side of an assignment comes before its targets, an augmented target is a read), not positional:
    normalised trees carry copied statements whose line numbers say nothing about their order."""
    k = id(fn)
    if k in _SEQ_CACHE and _SEQ_CACHE[k][0] is fn:
        return _SEQ_CACHE[k][1]
    seq = {}
    counter = [0]

    def visit(n):
        if isinstance(n, ast.Assign):
            visit(n.value)
            for t in n.targets:
                visit(t)
            return
        if isinstance(n, ast.AnnAssign):
            if n.value is not None:
                visit(n.value)
            visit(n.target)
            return
        if isinstance(n, ast.AugAssign):
            if isinstance(n.target, ast.Name):
                counter[0] += 1
                seq[id(n.target)] = (counter[0], True)         # read first, then written
            else:
                visit(n.target)
            visit(n.value)
            return
        if isinstance(n, ast.For):
            visit(n.iter)
            visit(n.target)
            for x in n.body + n.orelse:
                visit(x)
            return
        if isinstance(n, ast.Name):
            counter[0] += 1
            seq[id(n)] = (counter[0], isinstance(n.ctx, ast.Load))
            return
        for c in ast.iter_child_nodes(n):
            visit(c)
    visit(fn)
    _SEQ_CACHE[k] = (fn, seq)
    return seq


def _reads_first(loop, nm: str, fn) -> bool:
    """the first occurrence of `nm` in the loop's test + body (evaluation order) is a read"""
    seq = _name_seq(fn)
    nodes = []
    if isinstance(loop, ast.While):
        nodes.append(loop.test)
    nodes.extend(loop.body)
    occ = []
    for top in nodes:
        for n in ast.walk(top):
            if isinstance(n, ast.Name) and n.id == nm and id(n) in seq:
                occ.append(seq[id(n)])
    occ.sort()
    return bool(occ) and occ[0][1]


def _live_in(loop, nm: str, fn) -> bool:
    """is local `nm` carried from one iteration to the next (or out of the loop)?
    its first occurrence in test+body (evaluation order) is a read, or it is read after the loop"""
    seq = _name_seq(fn)
    nodes = []
    if isinstance(loop, ast.While):
        nodes.append(loop.test)
    nodes.extend(loop.body)
    occ = []
    for top in nodes:
        for n in ast.walk(top):
            if isinstance(n, ast.Name) and n.id == nm and id(n) in seq:
                occ.append(seq[id(n)])
    if occ:
        occ.sort()
        if occ[0][1]:
            return True
    last = 0
    for n in ast.walk(loop):
        if isinstance(n, ast.Name) and id(n) in seq:
            last = max(last, seq[id(n)][0])
    for n in ast.walk(fn):
        if isinstance(n, ast.Name) and n.id == nm and id(n) in seq and seq[id(n)][1] and seq[id(n)][0] > last:
            return True
    return False


def _has_break(body) -> bool:
    """break belonging to this loop (not to a nested loop)"""
    def walk(stmts):
        for s in stmts:
            if isinstance(s, ast.Break):
                return True
            if isinstance(s, (ast.For, ast.While)):
                if walk(s.orelse):
                    return True
                continue
            for blk in ('body', 'orelse', 'finalbody'):
                if walk(getattr(s, blk, []) or []):
                    return True
            if isinstance(s, ast.Try):
                for h in s.handlers:
                    if walk(h.body):
                        return True
        return False
    return walk(body)


def _self_field_of_target(t) -> Optional[str]:
    """self.f, self.f[...], self.f.g -> 'f'"""
    n = t
    while isinstance(n, (ast.Attribute, ast.Subscript)):
        if isinstance(n, ast.Attribute) and isinstance(n.value, ast.Name) and n.value.id == 'self':
            return n.attr
        n = n.value
    return None


def direct_self_writes(fn: ast.AST) -> set:
    out = set()
    for n in walk_local(fn):
        tgts = []
        if isinstance(n, ast.Assign):
            tgts = n.targets
        elif isinstance(n, (ast.AugAssign, ast.AnnAssign)):
            tgts = [n.target]
        elif isinstance(n, ast.Delete):
            tgts = n.targets
        elif isinstance(n, ast.Call) and isinstance(n.func, ast.Attribute) and n.func.attr in MUTATORS:
            f = _self_field_of_target(n.func.value)
            if f:
                out.add(f)
        for t in tgts:
            for tt in (t.elts if isinstance(t, (ast.Tuple, ast.List)) else [t]):
                f = _self_field_of_target(tt)
                if f:
                    out.add(f)
    return out


def block_writes(stmts) -> set:
    out = set()
    holder = ast.Module(body=list(stmts), type_ignores=[])
    out |= direct_self_writes(holder)
    for n in walk_local(holder):
        if isinstance(n, ast.Call) and isinstance(n.func, ast.Attribute) and isinstance(n.func.value, ast.Name) \
                and n.func.value.id == 'self':
            out.add('*')     # unknown self-call: conservatively everything
    return out


def transitive_self_writes(cls: ClassInfo, f: FuncInfo, _seen=None) -> set:
    _seen = _seen or set()
    if f.node in _seen:
        return set()
    _seen.add(f.node)
    out = direct_self_writes(f.node)
    for n in walk_local(f.node):
        if isinstance(n, ast.Call) and isinstance(n.func, ast.Attribute) and isinstance(n.func.value, ast.Name) \
                and n.func.value.id == 'self':
            t = cls.lookup(n.func.attr)
            if t is not None:
                out |= transitive_self_writes(cls, t, _seen)
    return out


# ----------------------------------------------------------------------------
# convenience
# ----------------------------------------------------------------------------

def function_paths(repo: Repo, cls: Optional[ClassInfo], func: FuncInfo, opts: Optional[Options] = None):
    ex = Executor(repo, cls, func, opts)
    paths = ex.run()
    return paths, ex


def parse_spec_function(src: str, module, cls: Optional[ClassInfo]) -> FuncInfo:
    """a reference function written as source text, analysed in the context of
    the same module / class as the code it is compared with"""
    import textwrap
    tree = ast.parse(textwrap.dedent(src))
    fn = tree.body[0]
    if not isinstance(fn, ast.FunctionDef):
        raise AnalysisError('spec is not a function')
    return FuncInfo(module, cls, fn)


def loops_of(paths: List[Path]) -> List[Region]:
    """distinct loop regions reachable from a path list, outermost first"""
    seen, out = set(), []

    def visit(ps):
        for p in ps:
            for e in p.effects:
                if e.kind == 'loop' and id(e.region) not in seen and (e.region.lineno, e.region.header) not in seen:
                    seen.add((e.region.lineno, e.region.header))
                    out.append(e.region)
                    visit(e.region.paths)
    visit(paths)
    return out
