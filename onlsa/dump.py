"""debug: print the path table of a method:  python -m onlsa.dump Class.method [CtxClass]"""
import sys
from .model import Repo
from .paths import function_paths, Options

def show_paths(paths, indent=''):
    for i, p in enumerate(paths):
        print('%s#%d %s' % (indent, i, p.describe()))
        for e in p.effects:
            if e.kind == 'loop':
                print('%s   loop %s %s line %d:' % (indent, e.region.kind, e.region.header, e.region.lineno))
                show_paths(e.region.paths, indent + '      ')

def main():
    repo = Repo(sys.argv[3] if len(sys.argv) > 3 and sys.argv[3].startswith('/') else '/repo')
    cn, mn = sys.argv[1].split('.')
    ctx = repo.find_class(sys.argv[2]) if len(sys.argv) > 2 and not sys.argv[2].startswith('/') else repo.find_class(cn)
    f = ctx.lookup(mn)
    paths, ex = function_paths(repo, ctx, f, Options())
    print(f.where, 'volatile:', sorted(ex.volatile))
    show_paths(paths)

if __name__ == '__main__':
    main()
