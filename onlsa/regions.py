"""Finite predicate abstraction: satisfiability of a conjunction of literals.

Every distinct canonical non-constant polynomial part is a *dimension*; a
literal ``dim + c op 0`` constrains the dimension to a ray / point of the real
line (or of the integers for dimensions declared integer-valued).  Optional
values have the three states None / falsy-not-None / truthy; opaque booleans
one bit.  Dimensions are treated as independent (no linear reasoning across
different polynomials): that can only make *more* combinations look feasible,
never fewer, so pruning with it is sound and a comparison made with it is
conservative.  This is a truth table, not a solver call.
"""
from __future__ import annotations

from fractions import Fraction
from math import floor, ceil
from typing import Dict, Iterable, List, Optional, Tuple


def _is_count(dim: str) -> bool:
    """`<store>.size()` is the number of items a kernel store holds (Store.size returns len(self.items)): a
    non-negative integer, like len(..)"""
    return dim.endswith('.size()') and ' ' not in dim


def is_integer_dim(dim: str, integer_dims: Iterable[str]) -> bool:
    if dim.startswith('len(') and dim.endswith(')') and dim.count('(') == 1:
        return True
    if _is_count(dim):
        return True
    for pat in integer_dims:
        if dim == pat:
            return True
    return False


def _sat_points(cons: List[Tuple[Fraction, str, bool]], integer: bool) -> Optional[Fraction]:
    """cons: (c, op, pol) meaning  (x + c op 0) == pol ; return a witness x or None"""
    thresholds = sorted({-c for c, _, _ in cons})
    cands: List[Fraction] = []
    if integer:
        lo = floor(min(thresholds)) - 1
        hi = ceil(max(thresholds)) + 1
        if hi - lo > 4000:
            cands = []
            for t in thresholds:
                for d in (-1, 0, 1):
                    cands.append(Fraction(floor(t) + d))
                    cands.append(Fraction(ceil(t) + d))
        else:
            cands = [Fraction(i) for i in range(lo, hi + 1)]
    else:
        cands.append(thresholds[0] - 1)
        for i, t in enumerate(thresholds):
            cands.append(t)
            if i + 1 < len(thresholds):
                cands.append((t + thresholds[i + 1]) / 2)
        cands.append(thresholds[-1] + 1)
    for x in cands:
        ok = True
        for c, op, pol in cons:
            v = x + c
            r = (v < 0) if op == '<' else (v <= 0) if op == '<=' else (v == 0)
            if r != pol:
                ok = False
                break
        if ok:
            return x
    return None


def solve(lits: Iterable[tuple], integer_dims: Iterable[str] = ()) -> Optional[Dict[str, object]]:
    """lits: (atom, polarity).  Returns a witness valuation (dimension -> value)
    or None when the conjunction is unsatisfiable in the abstraction."""
    num: Dict[str, List[Tuple[Fraction, str, bool]]] = {}
    opt: Dict[str, set] = {}
    bits: Dict[str, bool] = {}
    for a, pol in lits:
        k = a[0]
        if k == 'const':
            if a[1] != pol:
                return None
        elif k == 'cmp':
            _, dim, c, op = a
            num.setdefault(dim, []).append((Fraction(c), op, pol))
        elif k == 'none':
            allowed = {'None'} if pol else {'falsy', 'truthy'}
            opt[a[1]] = opt.get(a[1], {'None', 'falsy', 'truthy'}) & allowed
        elif k == 'truthy':
            allowed = {'truthy'} if pol else {'None', 'falsy'}
            opt[a[1]] = opt.get(a[1], {'None', 'falsy', 'truthy'}) & allowed
        elif k == 'bit':
            if a[1] in bits and bits[a[1]] != pol:
                return None
            bits[a[1]] = pol
        else:
            raise ValueError('unknown atom %r' % (a,))
    wit: Dict[str, object] = {}
    for t, allowed in opt.items():
        if not allowed:
            return None
        wit[t] = sorted(allowed)[0] if len(allowed) > 1 else next(iter(allowed))
    # link: truthiness of a collection and its length; truthiness of a number and its sign
    for t, allowed in opt.items():
        ldim = 'len(%s)' % t
        if ldim in num:
            if allowed == {'truthy'}:
                num[ldim].append((Fraction(-1), '<', False))      # len - 1 >= 0
            elif 'truthy' not in allowed:
                num[ldim].append((Fraction(0), '==', True))
        if t in num:
            if allowed == {'truthy'}:
                num[t].append((Fraction(0), '==', False))
            elif allowed == {'falsy'}:
                num[t].append((Fraction(0), '==', True))
    for dim, cons in num.items():
        integer = is_integer_dim(dim, integer_dims)
        if dim.startswith('len(') or _is_count(dim):
            cons = cons + [(Fraction(0), '<', False)]             # len >= 0
        x = _sat_points(cons, integer)
        if x is None:
            return None
        wit[dim] = x
    for b, v in bits.items():
        wit[b] = v
    return wit


def feasible(lits, integer_dims=()) -> bool:
    return solve(lits, integer_dims) is not None


def witness_str(w: Dict[str, object]) -> str:
    parts = []
    for k in sorted(w):
        v = w[k]
        if isinstance(v, Fraction):
            v = str(v)
        parts.append('%s=%s' % (k, v))
    return ', '.join(parts)
