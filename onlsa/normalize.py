"""Statement-level normal forms, applied to the code and to the reference functions alike before they are
executed symbolically.  Each rewriting is an equivalence of Python programs (the side conditions are checked on the
syntax), so that two ways of writing the same thing get one path table:

  N1  with suppress(E, ...): B              ->  try: B  except (E, ...): pass
  N2  for x in S: if c: raise X             ->  if any(c for x in S): raise X          (c without calls that have effects)
  N3  if b > a: a = b   /  if a < b: a = b  ->  a = max(a, b)        (ties keep a in both forms)
      if b < a: a = b   /  if a > b: a = b  ->  a = min(a, b)
  N4  for t in list(Z): ...                 ->  for t in Z: ...      (Z a zip/enumerate/range/reversed/sorted call or a
                                                                      comprehension: nothing the body can change)
  N5  for t in S: a, b = t; REST            ->  for a, b in S: REST  (t not used in REST nor after the loop)
  N6  while True: PRE; if c: break; REST    ->  PRE; while not c: REST; PRE          (loop rotation; no other jump)
  N8  return / return None in a loop that ends the function  ->  break
  N9  if c: continue ; REST   (loop body)   ->  if not c: REST
  N10 while A: if c: break ; REST           ->  while A and not c: REST
  N13 if A: if B: X   (no else)             ->  if A and B: X
  N14 if c: while T: B1  else: while T: B2  ->  while T: if c: B1 else: B2        (c invariant: loop unswitching undone)
  N15 while T[(x := E)]: B                  ->  while True: x = E; if not T[x]: break; B
  N16 a if a < b else b                     ->  min(a, b)     (and the max / <= / >= forms)
  N17 the search loop: work done at the match inside the loop / after it / in the caller of a _find() helper (see _search_loops)
  N12 for n, d in G.nodes(data=True)        ->  for n in G.nodes(): d = G.nodes[n]     (networkx)
  N7  try: return B[0]..  except IndexError: H   ->   if not B: H  else: return B[0]..   (one statement, no call; the
                                                                      entries of B are taken to be non-empty themselves)

Line numbers are kept (ast.copy_location), so reports still point into the file."""
from __future__ import annotations

import ast
import copy

_SAFE_ITER_CALLS = {'zip', 'enumerate', 'range', 'reversed', 'sorted'}
_PURE_IN_COND = {'len', 'isinstance', 'hasattr', 'getattr', 'abs', 'min', 'max', 'int', 'float', 'bool', 'str', 'type'}


def _same(a, b) -> bool:
    try:
        return ast.dump(a) == ast.dump(_as_load(b)) or ast.dump(_as_load(a)) == ast.dump(_as_load(b))
    except Exception:  # pragma: no cover
        return False


def _as_load(e):
    e2 = copy.deepcopy(e)
    for n in ast.walk(e2):
        if hasattr(n, 'ctx'):
            n.ctx = ast.Load()
    return e2


def _cond_pure(c) -> bool:
    for n in ast.walk(c):
        if isinstance(n, (ast.Yield, ast.YieldFrom, ast.Await, ast.NamedExpr)):
            return False
        if isinstance(n, ast.Call):
            f = n.func
            nm = f.id if isinstance(f, ast.Name) else f.attr if isinstance(f, ast.Attribute) else ''
            if nm not in _PURE_IN_COND and nm not in ('keys', 'values', 'items', 'get', 'size'):
                return False
    return True


def _names_used(nodes, name) -> bool:
    for s in nodes:
        for n in ast.walk(s):
            if isinstance(n, ast.Name) and n.id == name:
                return True
    return False


class _Norm(ast.NodeTransformer):
    def __init__(self, fn):
        self.fn = fn

    # nested definitions are left alone
    def visit_FunctionDef(self, node):
        if node is self.fn:
            self.generic_visit(node)
        return node

    visit_AsyncFunctionDef = visit_FunctionDef

    def visit_Lambda(self, node):
        return node

    def visit_ClassDef(self, node):
        return node

    # N1
    def visit_With(self, node):
        self.generic_visit(node)
        if len(node.items) == 1 and node.items[0].optional_vars is None:
            c = node.items[0].context_expr
            if isinstance(c, ast.Call) and not c.keywords and c.args and \
                    ((isinstance(c.func, ast.Name) and c.func.id == 'suppress') or
                     (isinstance(c.func, ast.Attribute) and c.func.attr == 'suppress' and isinstance(c.func.value, ast.Name)
                      and c.func.value.id == 'contextlib')):
                typ = c.args[0] if len(c.args) == 1 else ast.Tuple(elts=list(c.args), ctx=ast.Load())
                h = ast.ExceptHandler(type=typ, name=None, body=[ast.copy_location(ast.Pass(), node)])
                ast.copy_location(h, node)
                t = ast.Try(body=node.body, handlers=[h], orelse=[], finalbody=[])
                return ast.fix_missing_locations(ast.copy_location(t, node))
        return node

    # N9: if c: continue ; REST   ->   if not c: REST        (in a loop body)
    def _continue_guards(self, body):
        out = []
        i = 0
        while i < len(body):
            b = body[i]
            if isinstance(b, ast.If) and not b.orelse and len(b.body) == 1 and isinstance(b.body[0], ast.Continue) and i + 1 < len(body):
                rest = self._continue_guards(body[i + 1:])
                new = ast.If(test=ast.UnaryOp(op=ast.Not(), operand=b.test), body=rest, orelse=[])
                out.append(ast.fix_missing_locations(ast.copy_location(new, b)))
                return out
            out.append(b)
            i += 1
        # the same inside an if block that ends the loop body (a `continue` there skips nothing but the rest of that block)
        if out and isinstance(out[-1], ast.If) and not out[-1].orelse:
            out[-1].body = self._continue_guards(out[-1].body)
        return out

    # N12: networkx   for n, d in G.nodes(data=True)   ->   for n in G.nodes(): d = G.nodes[n]
    def _nx_nodes_data(self, node):
        it = node.iter
        if isinstance(node.target, ast.Tuple) and len(node.target.elts) == 2 and all(isinstance(e, ast.Name) for e in node.target.elts) \
                and isinstance(it, ast.Call) and isinstance(it.func, ast.Attribute) and it.func.attr == 'nodes' and not it.args \
                and len(it.keywords) == 1 and it.keywords[0].arg == 'data' and isinstance(it.keywords[0].value, ast.Constant) \
                and it.keywords[0].value.value is True:
            n, d = node.target.elts
            g = it.func.value
            first = ast.Assign(targets=[ast.Name(id=d.id, ctx=ast.Store())],
                               value=ast.Subscript(value=ast.Attribute(value=_as_load(g), attr='nodes', ctx=ast.Load()),
                                                   slice=ast.Name(id=n.id, ctx=ast.Load()), ctx=ast.Load()))
            ast.fix_missing_locations(ast.copy_location(first, node))
            node.target = ast.copy_location(ast.Name(id=n.id, ctx=ast.Store()), node.target)
            node.iter = ast.fix_missing_locations(ast.copy_location(
                ast.Call(func=ast.Attribute(value=_as_load(g), attr='nodes', ctx=ast.Load()), args=[], keywords=[]), it))
            node.body = [first] + node.body

    # N2, N4, N5
    def visit_For(self, node):
        self.generic_visit(node)
        node.body = self._continue_guards(node.body)
        self._nx_nodes_data(node)
        # N4
        it = node.iter
        if isinstance(it, ast.Call) and isinstance(it.func, ast.Name) and it.func.id == 'list' and len(it.args) == 1 and not it.keywords:
            z = it.args[0]
            if (isinstance(z, ast.Call) and isinstance(z.func, ast.Name) and z.func.id in _SAFE_ITER_CALLS) or \
                    isinstance(z, (ast.GeneratorExp, ast.ListComp)):
                node.iter = z
        # N5
        if isinstance(node.target, ast.Name) and len(node.body) >= 1 and not node.orelse:
            b0 = node.body[0]
            t = node.target.id
            if isinstance(b0, ast.Assign) and len(b0.targets) == 1 and isinstance(b0.targets[0], (ast.Tuple, ast.List)) \
                    and isinstance(b0.value, ast.Name) and b0.value.id == t \
                    and all(isinstance(e, ast.Name) for e in b0.targets[0].elts) \
                    and not _names_used(node.body[1:], t) and not self._used_after(node, t) and len(node.body) > 1:
                node.target = ast.copy_location(ast.Tuple(elts=[ast.Name(id=e.id, ctx=ast.Store()) for e in b0.targets[0].elts],
                                                          ctx=ast.Store()), node.target)
                for e in node.target.elts:
                    ast.copy_location(e, node.target)
                node.body = node.body[1:]
        # N2
        if not node.orelse and len(node.body) == 1 and isinstance(node.body[0], ast.If):
            i = node.body[0]
            if not i.orelse and len(i.body) == 1 and isinstance(i.body[0], ast.Raise) and _cond_pure(i.test) and _cond_pure(node.iter):
                gen = ast.GeneratorExp(elt=i.test, generators=[ast.comprehension(target=node.target, iter=node.iter, ifs=[], is_async=0)])
                test = ast.Call(func=ast.Name(id='any', ctx=ast.Load()), args=[gen], keywords=[])
                new = ast.If(test=test, body=i.body, orelse=[])
                return ast.fix_missing_locations(ast.copy_location(new, node))
        return node

    # N6: loop rotation
    def visit_While(self, node):
        # N15: a walrus in the loop test:  while T[(x := E)]: B   ->   while True: x = E; if not T[x]: break; B
        walr = [n for n in ast.walk(node.test) if isinstance(n, ast.NamedExpr)]
        if len(walr) == 1 and not node.orelse and isinstance(walr[0].target, ast.Name):
            w = walr[0]

            class R(ast.NodeTransformer):
                def visit_NamedExpr(self, n):
                    return ast.Name(id=w.target.id, ctx=ast.Load())
            test2 = R().visit(copy.deepcopy(node.test))
            asg = ast.Assign(targets=[ast.Name(id=w.target.id, ctx=ast.Store())], value=w.value)
            brk = ast.If(test=ast.UnaryOp(op=ast.Not(), operand=test2), body=[ast.Break()], orelse=[])
            node = ast.While(test=ast.Constant(value=True), body=[asg, brk] + node.body, orelse=[])
            ast.fix_missing_locations(ast.copy_location(node, w))
        self.generic_visit(node)
        node.body = self._continue_guards(node.body)
        # N10: while A: if c: break ; REST   ->   while A and not c: REST
        if not node.orelse and node.body and isinstance(node.body[0], ast.If) and not node.body[0].orelse \
                and len(node.body[0].body) == 1 and isinstance(node.body[0].body[0], ast.Break) and _cond_pure(node.body[0].test) \
                and len(node.body) > 1:
            # (further break / continue statements in REST keep their meaning: they leave or re-test the same loop)
            c = node.body[0].test
            notc = c.operand if isinstance(c, ast.UnaryOp) and isinstance(c.op, ast.Not) else ast.UnaryOp(op=ast.Not(), operand=c)
            if isinstance(node.test, ast.Constant) and node.test.value is True:
                node.test = notc
            else:
                node.test = ast.BoolOp(op=ast.And(), values=[node.test, notc])
            node.body = node.body[1:]
            ast.fix_missing_locations(node)
            return self.visit_While_again(node)
        if node.orelse or not (isinstance(node.test, ast.Constant) and node.test.value is True):
            return node
        idx = None
        for i, b in enumerate(node.body):
            if isinstance(b, ast.If) and not b.orelse and len(b.body) == 1 and isinstance(b.body[0], ast.Break):
                idx = i
                break
        if idx is None:
            return node
        pre, cond, rest = node.body[:idx], node.body[idx].test, node.body[idx + 1:]

        def has_jump(stmts):
            for st_ in stmts:
                for n in ast.walk(st_):
                    if isinstance(n, (ast.Break, ast.Continue)):
                        return True
                    if isinstance(n, (ast.For, ast.While)):
                        pass
            return False
        if has_jump(pre) or has_jump(rest) or not _cond_pure(cond):
            return node
        if any(isinstance(n, (ast.FunctionDef, ast.Return)) for st_ in pre for n in ast.walk(st_)):
            return node
        neg = ast.UnaryOp(op=ast.Not(), operand=cond)
        body = rest + [copy.deepcopy(x) for x in pre]
        if not body:
            body = [ast.Pass()]
        new_loop = ast.While(test=neg, body=body, orelse=[])
        out = [copy.deepcopy(x) for x in pre] + [new_loop]
        for o in out:
            ast.copy_location(o, node)
            ast.fix_missing_locations(o)
        return out

    def visit_While_again(self, node):
        # a second leading `if c: break` (N10 applies until none is left); children are already normalised
        while node.body and isinstance(node.body[0], ast.If) and not node.body[0].orelse and len(node.body[0].body) == 1 \
                and isinstance(node.body[0].body[0], ast.Break) and _cond_pure(node.body[0].test) and len(node.body) > 1:
            c = node.body[0].test
            notc = c.operand if isinstance(c, ast.UnaryOp) and isinstance(c.op, ast.Not) else ast.UnaryOp(op=ast.Not(), operand=c)
            node.test = ast.BoolOp(op=ast.And(), values=[node.test, notc])
            node.body = node.body[1:]
            ast.fix_missing_locations(node)
        return node

    # N7: try: <one statement reading B[0] / B[-1]> except IndexError: H   ->   if not B: H else: <statement>
    def visit_Try(self, node):
        self.generic_visit(node)
        if node.orelse or node.finalbody or len(node.handlers) != 1 or len(node.body) != 1:
            return node
        h = node.handlers[0]
        if h.name or not (isinstance(h.type, ast.Name) and h.type.id == 'IndexError'):
            return node
        b = node.body[0]
        if not isinstance(b, (ast.Return, ast.Assign)) or b.value is None:
            return node
        if any(isinstance(n, (ast.Call, ast.Yield, ast.YieldFrom, ast.Await)) for n in ast.walk(b.value)):
            return node
        subs = [n for n in ast.walk(b.value) if isinstance(n, ast.Subscript)]
        # the innermost subscript must be B[0] or B[-1] on a plain attribute chain, and every other subscript sits on it
        inner = [n for n in subs if not isinstance(n.value, ast.Subscript)]
        if len(inner) != 1:
            return node
        i0 = inner[0]
        sl = i0.slice
        val = sl.value if isinstance(sl, ast.Constant) else (-sl.operand.value if isinstance(sl, ast.UnaryOp) and isinstance(sl.op, ast.USub)
                                                           and isinstance(sl.operand, ast.Constant) else None)
        if val not in (0, -1):
            return node
        base = i0.value
        chain = base
        while isinstance(chain, ast.Attribute):
            chain = chain.value
        if not isinstance(chain, ast.Name):
            return node
        new = ast.If(test=ast.UnaryOp(op=ast.Not(), operand=_as_load(base)), body=h.body, orelse=[b])
        return ast.fix_missing_locations(ast.copy_location(new, node))

    def _used_after(self, loop, name) -> bool:
        """is `name` read after the loop in the function (conservative: anywhere outside the loop)?"""
        inside = {id(n) for n in ast.walk(loop)}
        for n in ast.walk(self.fn):
            if isinstance(n, ast.Name) and n.id == name and id(n) not in inside and isinstance(n.ctx, ast.Load):
                return True
        return False

    # ite forms of min / max:   a if a < b else b  ->  min(a, b)     a if a > b else b  ->  max(a, b)   (and the <=, >= forms:
    # on a tie both operands have the same value)
    def visit_IfExp(self, node):
        self.generic_visit(node)
        t = node.test
        if isinstance(t, ast.Compare) and len(t.ops) == 1 and isinstance(t.ops[0], (ast.Lt, ast.LtE, ast.Gt, ast.GtE)):
            l, r = t.left, t.comparators[0]
            less = isinstance(t.ops[0], (ast.Lt, ast.LtE))
            fn = None
            if _same(node.body, l) and _same(node.orelse, r):
                fn = 'min' if less else 'max'
            elif _same(node.body, r) and _same(node.orelse, l):
                fn = 'max' if less else 'min'
            if fn and _cond_pure(l) and _cond_pure(r):
                new = ast.Call(func=ast.Name(id=fn, ctx=ast.Load()), args=[copy.deepcopy(l), copy.deepcopy(r)], keywords=[])
                return ast.fix_missing_locations(ast.copy_location(new, node))
        return node

    # N3
    def visit_If(self, node):
        self.generic_visit(node)
        # N14: loop unswitching undone:  if c: while T: B1  else: while T: B2   ->   while T: if c: B1 else: B2
        # (c reads only names that neither loop assigns)
        if len(node.body) == 1 and len(node.orelse) == 1 and isinstance(node.body[0], ast.While) and isinstance(node.orelse[0], ast.While) \
                and not node.body[0].orelse and not node.orelse[0].orelse and ast.dump(node.body[0].test) == ast.dump(node.orelse[0].test) \
                and _cond_pure(node.test):
            w1, w2 = node.body[0], node.orelse[0]
            assigned = {n.id for w in (w1, w2) for n in ast.walk(w) if isinstance(n, ast.Name) and isinstance(n.ctx, ast.Store)}
            reads = {n.id for n in ast.walk(node.test) if isinstance(n, ast.Name)}
            attr_reads = any(isinstance(n, ast.Attribute) for n in ast.walk(node.test))
            if not (assigned & reads) and not attr_reads:
                inner = ast.If(test=node.test, body=w1.body, orelse=w2.body)
                new = ast.While(test=w1.test, body=[inner], orelse=[])
                ast.copy_location(inner, node)
                return ast.fix_missing_locations(ast.copy_location(new, node))
        # N13: if A: if B: X   (no else on either)   ->   if A and B: X
        while not node.orelse and len(node.body) == 1 and isinstance(node.body[0], ast.If) and not node.body[0].orelse:
            inner = node.body[0]
            node.test = ast.BoolOp(op=ast.And(), values=[node.test, inner.test])
            node.body = inner.body
            ast.fix_missing_locations(node)
        test0 = node.test
        if isinstance(test0, ast.UnaryOp) and isinstance(test0.op, ast.Not) and isinstance(test0.operand, ast.Compare) \
                and len(test0.operand.ops) == 1 and isinstance(test0.operand.ops[0], (ast.Gt, ast.Lt)):
            # not (x > y)  is  x <= y   (over ordered values; NaN operands are the business of the NaN rule)
            inv = {ast.Gt: ast.LtE, ast.Lt: ast.GtE}[type(test0.operand.ops[0])]
            test0 = ast.Compare(left=test0.operand.left, ops=[inv()], comparators=test0.operand.comparators)
        if isinstance(test0, ast.Compare) and len(test0.ops) == 1 and isinstance(test0.ops[0], (ast.LtE, ast.GtE)):
            # if a <= b: a = b  stores b also on a tie, where it equals a: same value as max(a, b)
            strict = {ast.LtE: ast.Lt, ast.GtE: ast.Gt}[type(test0.ops[0])]
            test0 = ast.Compare(left=test0.left, ops=[strict()], comparators=test0.comparators)
        if not node.orelse and len(node.body) == 1 and isinstance(node.body[0], ast.Assign) and len(node.body[0].targets) == 1 \
                and isinstance(test0, ast.Compare) and len(test0.ops) == 1 \
                and isinstance(test0.ops[0], (ast.Gt, ast.Lt)):
            orig = node
            node = copy.copy(node)
            node.test = test0
            asg = node.body[0]
            a = asg.targets[0]
            if isinstance(a, (ast.Name, ast.Attribute, ast.Subscript)):
                l, r = node.test.left, node.test.comparators[0]
                gt = isinstance(node.test.ops[0], ast.Gt)
                b = asg.value
                fn = None
                if _same(l, b) and _same(r, a):          # b OP a
                    fn = 'max' if gt else 'min'
                elif _same(l, a) and _same(r, b):        # a OP b
                    fn = 'min' if gt else 'max'
                if fn and _cond_pure(b) and _cond_pure(a):
                    call = ast.Call(func=ast.Name(id=fn, ctx=ast.Load()), args=[_as_load(a), copy.deepcopy(b)], keywords=[])
                    new = ast.Assign(targets=[a], value=call)
                    return ast.fix_missing_locations(ast.copy_location(new, node))
            return orig
        return node


def _inline_guard_temps(fn):
    """N0   t = E; if t: ...   ->   if E: ...      (t assigned right before the test and used nowhere else)"""
    uses = {}
    for n in ast.walk(fn):
        if isinstance(n, ast.Name):
            uses[n.id] = uses.get(n.id, 0) + 1

    def blocks(node):
        for fld in ('body', 'orelse', 'finalbody'):
            b = getattr(node, fld, None)
            if isinstance(b, list) and b and isinstance(b[0], ast.stmt):
                yield b
        for h in getattr(node, 'handlers', []) or []:
            yield h.body
    for node in ast.walk(fn):
        if isinstance(node, (ast.Lambda,)):
            continue
        for b in blocks(node):
            i = 0
            while i + 1 < len(b):
                a, nxt = b[i], b[i + 1]
                if isinstance(a, ast.Assign) and len(a.targets) == 1 and isinstance(a.targets[0], ast.Name) \
                        and isinstance(nxt, ast.If) and uses.get(a.targets[0].id, 0) == 2:
                    t = a.targets[0].id
                    test = nxt.test
                    if isinstance(test, ast.Name) and test.id == t:
                        nxt.test = a.value
                        del b[i]
                        continue
                    if isinstance(test, ast.UnaryOp) and isinstance(test.op, ast.Not) and isinstance(test.operand, ast.Name) \
                            and test.operand.id == t:
                        test.operand = a.value
                        del b[i]
                        continue
                i += 1


def _terminal_loop_returns(fn):
    """N8   a `return` / `return None` inside a loop that is the last statement of the function (no else clause, not
    inside a nested loop or a try with finally) leaves the loop and then falls off the end: it is a `break`"""
    if not fn.body:
        return
    last = fn.body[-1]
    if not isinstance(last, (ast.For, ast.While)) or last.orelse:
        return

    def rewrite(stmts):
        for i, st_ in enumerate(stmts):
            if isinstance(st_, ast.Return) and (st_.value is None or (isinstance(st_.value, ast.Constant) and st_.value.value is None)):
                stmts[i] = ast.copy_location(ast.Break(), st_)
            elif isinstance(st_, ast.If):
                rewrite(st_.body)
                rewrite(st_.orelse)
            elif isinstance(st_, ast.With):
                rewrite(st_.body)
            elif isinstance(st_, ast.Try) and not st_.finalbody:
                rewrite(st_.body)
                rewrite(st_.orelse)
                for h in st_.handlers:
                    rewrite(h.body)
    rewrite(last.body)


def _search_loops(fn):
    """N17  the search loop.   for T in S: ... if C: BODY; break      (one jump in the loop, at the tail of an if chain;
    the jump may also be `return E`)  becomes
         __hit = False
         for T in S: ... if C: __hit = True; break
         if __hit: BODY [; return E]
    so that doing the work inside the loop, doing it after the loop, and doing it in the caller of an extracted
    `_find()` helper that returns the match are one form (loop variables keep their values after a break)."""
    counter = [0]

    def level_jumps(stmts):
        out = []
        for st_ in stmts:
            if isinstance(st_, (ast.Break, ast.Return)):
                out.append(st_)
            elif isinstance(st_, (ast.For, ast.While, ast.FunctionDef, ast.AsyncFunctionDef, ast.ClassDef)):
                # a nested loop's break is its own; a return inside it still leaves us: count returns
                out.extend(n for n in ast.walk(st_) if isinstance(n, ast.Return))
            else:
                for fld in ('body', 'orelse', 'finalbody'):
                    out.extend(level_jumps(getattr(st_, fld, []) or []))
                for h in getattr(st_, 'handlers', []) or []:
                    out.extend(level_jumps(h.body))
        return out

    def tail(block):
        if not block:
            return None
        last = block[-1]
        if isinstance(last, (ast.Break, ast.Return)):
            return block
        if isinstance(last, ast.If) and not last.orelse:
            return tail(last.body)
        return None

    def blocks(node):
        for fld in ('body', 'orelse', 'finalbody'):
            b = getattr(node, fld, None)
            if isinstance(b, list) and b and isinstance(b[0], ast.stmt):
                yield b
        for h in getattr(node, 'handlers', []) or []:
            yield h.body
    for node in list(ast.walk(fn)):
        if isinstance(node, ast.Lambda):
            continue
        for b in blocks(node):
            i = 0
            while i < len(b):
                loop = b[i]
                if isinstance(loop, ast.For) and loop.orelse and not getattr(loop, '_n17', False):
                    # N19  for .. else:  `for T in S: .. if C: break` / `else: E` is the search loop whose flag is tested
                    # after it: __hit = False; for ..: if C: __hit = True; break;  if not __hit: E
                    jumps = level_jumps(loop.body)
                    if jumps and all(isinstance(j, ast.Break) for j in jumps):
                        loop._n17 = True
                        counter[0] += 1
                        flag = '__hit%d' % counter[0]

                        def mark(stmts):
                            k = 0
                            while k < len(stmts):
                                st_ = stmts[k]
                                if isinstance(st_, ast.Break):
                                    stmts.insert(k, ast.copy_location(ast.Assign(targets=[ast.Name(id=flag, ctx=ast.Store())],
                                                                                 value=ast.Constant(value=True)), st_))
                                    k += 2
                                    continue
                                if not isinstance(st_, (ast.For, ast.While, ast.FunctionDef, ast.AsyncFunctionDef, ast.ClassDef)):
                                    for fld in ('body', 'orelse', 'finalbody'):
                                        sub = getattr(st_, fld, None)
                                        if isinstance(sub, list):
                                            mark(sub)
                                    for h in getattr(st_, 'handlers', []) or []:
                                        mark(h.body)
                                k += 1
                        mark(loop.body)
                        init = ast.copy_location(ast.Assign(targets=[ast.Name(id=flag, ctx=ast.Store())], value=ast.Constant(value=False)), loop)
                        after = ast.copy_location(ast.If(test=ast.UnaryOp(op=ast.Not(), operand=ast.Name(id=flag, ctx=ast.Load())),
                                                         body=loop.orelse, orelse=[]), loop)
                        loop.orelse = []
                        b[i:i + 1] = [init, loop, after]
                        for x in b[i:i + 3]:
                            ast.fix_missing_locations(x)
                        i += 3
                        continue
                if isinstance(loop, ast.For) and not loop.orelse and not getattr(loop, '_n17', False):
                    loop._n17 = True
                    jumps = level_jumps(loop.body)
                    blk = tail(loop.body)
                    if len(jumps) == 1 and blk is not None and blk[-1] is jumps[0] and blk is not loop.body \
                            and not any(isinstance(n, (ast.Yield, ast.YieldFrom)) and False for n in ast.walk(loop)):
                        j = blk[-1]
                        if isinstance(j, ast.Return) and j.value is not None and any(
                                isinstance(n, (ast.Call, ast.Yield, ast.YieldFrom)) for n in ast.walk(j.value)):
                            i += 1
                            continue
                        body = blk[:-1]
                        if not body and isinstance(j, ast.Break):
                            i += 1
                            continue            # a plain `if C: break` search: already the canonical form
                        counter[0] += 1
                        flag = '__hit%d' % counter[0]
                        del blk[:]
                        blk.append(ast.Assign(targets=[ast.Name(id=flag, ctx=ast.Store())], value=ast.Constant(value=True)))
                        blk.append(ast.Break())
                        init = ast.Assign(targets=[ast.Name(id=flag, ctx=ast.Store())], value=ast.Constant(value=False))
                        after_body = body + ([j] if isinstance(j, ast.Return) else [])
                        after = ast.If(test=ast.Name(id=flag, ctx=ast.Load()), body=after_body, orelse=[])
                        for x in (init, after):
                            ast.copy_location(x, loop)
                        for x in blk:
                            ast.copy_location(x, j)
                        b[i:i + 1] = [init, loop, after]
                        ast.fix_missing_locations(b[i])
                        ast.fix_missing_locations(b[i + 1])
                        ast.fix_missing_locations(b[i + 2])
                        i += 3
                        continue
                i += 1


_CACHE = {}


_SIMPLE_PURE = {'min', 'max', 'abs', 'float', 'int', 'len', 'bool', 'round'}


def _simple_arg(e) -> bool:
    """an argument that may be evaluated anywhere, any number of times: names, constants, attribute / subscript chains
    over them, arithmetic of those"""
    if isinstance(e, (ast.Name, ast.Constant)):
        return True
    if isinstance(e, ast.Attribute):
        return _simple_arg(e.value)
    if isinstance(e, ast.Subscript):
        return _simple_arg(e.value) and _simple_arg(e.slice)
    if isinstance(e, ast.BinOp):
        return _simple_arg(e.left) and _simple_arg(e.right)
    if isinstance(e, ast.UnaryOp):
        return _simple_arg(e.operand)
    return False


def expression_of(fn: ast.FunctionDef):
    """(parameter names, expression) when the function only returns a call-free expression of its parameters (and of
    attributes of `self`); None otherwise"""
    a = fn.args
    if a.vararg or a.kwarg or a.kwonlyargs or a.posonlyargs:
        return None
    body = [s_ for s_ in fn.body if not (isinstance(s_, ast.Expr) and isinstance(s_.value, ast.Constant))]
    if len(body) != 1 or not isinstance(body[0], ast.Return) or body[0].value is None:
        return None
    e = body[0].value
    for n in ast.walk(e):
        if isinstance(n, (ast.Yield, ast.YieldFrom, ast.Await, ast.Lambda, ast.NamedExpr, ast.ListComp, ast.SetComp, ast.DictComp)):
            return None
        if isinstance(n, ast.GeneratorExp) and n is not e:
            return None             # a generator expression only as the whole result (a lazily paired-up view)
        if isinstance(n, ast.Call) and not (isinstance(n.func, ast.Name) and n.func.id in _SIMPLE_PURE):
            return None
    if any(d is not None and not isinstance(d, ast.Constant) for d in a.defaults):
        return None
    return [x.arg for x in a.args], e, list(a.defaults)


class _InlineExprHelpers(ast.NodeTransformer):
    """N18: a call of a private helper that only returns an expression of its arguments is that expression"""

    def __init__(self, resolver):
        self.resolver = resolver
        self.changed = False

    def visit_Call(self, node):
        self.generic_visit(node)
        r = self.resolver(node)
        if r is None:
            return node
        params, expr, defaults, skip_self = r
        if skip_self and params and params[0] in ('self', 'cls'):
            params = params[1:]
        if any(k.arg is None for k in node.keywords) or any(isinstance(x, ast.Starred) for x in node.args):
            return node
        if len(node.args) > len(params):
            return node
        binding = {}
        for p_, a_ in zip(params, node.args):
            binding[p_] = a_
        for k in node.keywords:
            if k.arg not in params or k.arg in binding:
                return node
            binding[k.arg] = k.value
        dmap = dict(zip(params[len(params) - len(defaults):], defaults)) if defaults else {}
        for p_ in params:
            if p_ not in binding:
                if p_ not in dmap:
                    return node
                binding[p_] = dmap[p_]
        if not all(_simple_arg(v) for v in binding.values()):
            return node

        class _Sub(ast.NodeTransformer):
            def visit_Name(self_, n):
                if isinstance(n.ctx, ast.Load) and n.id in binding:
                    return copy.deepcopy(binding[n.id])
                return n
        out = _Sub().visit(copy.deepcopy(expr))
        self.changed = True
        return ast.copy_location(out, node)


def inline_expression_helpers(fn: ast.FunctionDef, resolver) -> ast.FunctionDef:
    fn2 = copy.deepcopy(fn)
    t = _InlineExprHelpers(resolver)
    fn2.body = [t.visit(s_) for s_ in fn2.body]
    if not t.changed:
        return fn
    ast.fix_missing_locations(fn2)
    return fn2


def _flatten_forever_loops(fn):
    """N20   while True: [while C: B] ; TAIL      (no `break` out of the inner loop, none in TAIL, no else)
    is      while True: if C: B else: TAIL
    - after TAIL the outer loop comes back to the test of C, exactly as after B.  One form for the server loop written
    with a nested `while backlog:` and written flat with `if not backlog: <wait>; continue`."""
    def own_breaks(stmts):
        out = []
        for st_ in stmts:
            if isinstance(st_, ast.Break):
                out.append(st_)
            elif isinstance(st_, (ast.For, ast.While, ast.FunctionDef, ast.AsyncFunctionDef, ast.ClassDef)):
                continue
            else:
                for fld in ('body', 'orelse', 'finalbody'):
                    out.extend(own_breaks(getattr(st_, fld, []) or []))
                for h in getattr(st_, 'handlers', []) or []:
                    out.extend(own_breaks(h.body))
        return out
    for node in ast.walk(fn):
        if isinstance(node, ast.While) and isinstance(node.test, ast.Constant) and node.test.value is True and not node.orelse \
                and node.body and isinstance(node.body[0], ast.While) and not node.body[0].orelse:
            inner, tail_ = node.body[0], node.body[1:]
            if isinstance(inner.test, ast.Constant) or own_breaks(inner.body) or own_breaks(tail_):
                continue
            if any(isinstance(n, (ast.Return,)) for st_ in tail_ for n in ast.walk(st_)):
                continue
            new_if = ast.copy_location(ast.If(test=inner.test, body=inner.body, orelse=tail_ or [ast.copy_location(ast.Pass(), inner)]), inner)
            node.body = [new_if]
            ast.fix_missing_locations(node)


def normalized(fn: ast.FunctionDef) -> ast.FunctionDef:
    k = id(fn)
    if k not in _CACHE:
        fn2 = copy.deepcopy(fn)
        _flatten_forever_loops(fn2)
        _inline_guard_temps(fn2)
        _terminal_loop_returns(fn2)
        _Norm(fn2).visit(fn2)
        _search_loops(fn2)
        _CACHE[k] = (fn, fn2)          # keep fn alive: ids are reused otherwise
    return _CACHE[k][1]
