"""Canonical terms: polynomial normal form over Fraction coefficients, canonical
strings for non-arithmetic terms, and atomic conditions ("literals").

Everything here works on Python ``ast`` expressions whose local names have
already been replaced by their defining terms (see paths.py).  Nothing is
evaluated; a term is a piece of syntax put into a normal form so that two
behaviourally equal spellings compare equal:

* ``a + b`` / ``b + a``, ``x * 8.0 / r`` / ``8 * x / r`` / ``x / (r / 8)``  -> one polynomial
* ``a < b`` / ``b > a`` / ``not a >= b``                               -> one literal
* ``min(a, b)`` / ``min(b, a)``                                        -> one string
"""
from __future__ import annotations

import ast
from fractions import Fraction
from typing import Dict, Tuple, Optional, List

Mono = Tuple[Tuple[str, int], ...]          # sorted ((atom, exponent), ...)
Poly = Dict[Mono, Fraction]

COMMUTATIVE_CALLS = {'min', 'max'}


# ----------------------------------------------------------------------------
# polynomials
# ----------------------------------------------------------------------------

def pconst(c) -> Poly:
    c = Fraction(c)
    return {(): c} if c else {}


def patom(name: str) -> Poly:
    return {((name, 1),): Fraction(1)}


def padd(a: Poly, b: Poly, k=1) -> Poly:
    r = dict(a)
    for m, c in b.items():
        v = r.get(m, 0) + k * c
        if v == 0:
            r.pop(m, None)
        else:
            r[m] = v
    return r


def pmul(a: Poly, b: Poly) -> Poly:
    r: Poly = {}
    for m1, c1 in a.items():
        for m2, c2 in b.items():
            d = dict(m1)
            for v, e in m2:
                d[v] = d.get(v, 0) + e
            # x * inv(x) -> 1
            for v in list(d):
                if v.startswith('inv(') and v.endswith(')'):
                    base = v[4:-1]
                    if base in d and d[base] and d[v]:
                        k = min(d[base], d[v])
                        d[base] -= k
                        d[v] -= k
            m = tuple(sorted((v, e) for v, e in d.items() if e))
            v2 = r.get(m, 0) + c1 * c2
            if v2 == 0:
                r.pop(m, None)
            else:
                r[m] = v2
    return r


def pis_const(p: Poly) -> bool:
    return all(m == () for m in p)


def pconst_value(p: Poly) -> Fraction:
    return p.get((), Fraction(0))


def pinv(p: Poly) -> Poly:
    """1/p as a polynomial over inv(..) atoms."""
    if not p:
        return patom('inv(0)')
    if pis_const(p):
        return pconst(1 / p[()])
    if len(p) == 1:
        (m, c), = p.items()
        out = pconst(1 / c)
        for v, e in m:
            if v.startswith('inv(') and v.endswith(')'):
                # 1/inv(x) = x  (x is a canonical polynomial string of one atom
                # or a general polynomial; keep it as an atom either way)
                out = pmul(out, {((v[4:-1], e),): Fraction(1)})
            else:
                out = pmul(out, {(('inv(%s)' % v, e),): Fraction(1)})
        return out
    # several terms: normalise leading coefficient to 1 and keep atomic
    lead = sorted(p.items())[-1][1]
    q = {m: c / lead for m, c in p.items()}
    return pmul(pconst(1 / lead), patom('inv(%s)' % show(q)))


def show(p: Poly) -> str:
    if not p:
        return '0'
    out = []
    for m, c in sorted(p.items()):
        mon = '*'.join(v if e == 1 else '%s^%d' % (v, e) for v, e in m)
        if not mon:
            out.append(str(c))
        elif c == 1:
            out.append(mon)
        else:
            out.append('%s*%s' % (c, mon))
    return ' + '.join(out)


def poly_atoms(p: Poly) -> set:
    return {v for m in p for v, _ in m}


def split_const(p: Poly) -> Tuple[Poly, Fraction]:
    """non-constant part and constant part"""
    q = {m: c for m, c in p.items() if m != ()}
    return q, p.get((), Fraction(0))


def is_number(n: ast.AST) -> bool:
    return isinstance(n, ast.Constant) and isinstance(n.value, (int, float)) and not isinstance(n.value, bool)


def is_arith(n: ast.AST) -> bool:
    if is_number(n):
        return True
    if isinstance(n, ast.BinOp) and isinstance(n.op, (ast.Add, ast.Sub, ast.Mult, ast.Div, ast.Pow)):
        # string concatenation / formatting is not arithmetic
        for side in (n.left, n.right):
            if isinstance(side, (ast.JoinedStr,)) or (isinstance(side, ast.Constant) and isinstance(side.value, str)):
                return False
        return True
    if isinstance(n, ast.UnaryOp) and isinstance(n.op, (ast.USub, ast.UAdd)):
        return True
    return False


def to_poly(n: ast.AST) -> Poly:
    if is_number(n):
        v = n.value
        if isinstance(v, float):
            if v != v or v in (float('inf'), float('-inf')):
                return patom('float(%r)' % v)
            return pconst(Fraction(str(v)))
        return pconst(Fraction(v))
    if isinstance(n, ast.BinOp):
        if isinstance(n.op, ast.Add):
            return padd(to_poly(n.left), to_poly(n.right))
        if isinstance(n.op, ast.Sub):
            return padd(to_poly(n.left), to_poly(n.right), -1)
        if isinstance(n.op, ast.Mult):
            return pmul(to_poly(n.left), to_poly(n.right))
        if isinstance(n.op, ast.Div):
            return pmul(to_poly(n.left), pinv(to_poly(n.right)))
        if isinstance(n.op, ast.Pow):
            e = n.right
            neg = False
            if isinstance(e, ast.UnaryOp) and isinstance(e.op, ast.USub):
                e, neg = e.operand, True
            if is_number(e) and isinstance(e.value, int) and 0 <= e.value <= 6:
                r = pconst(1)
                base = to_poly(n.left)
                for _ in range(e.value):
                    r = pmul(r, base)
                return pinv(r) if neg else r
            base_s = term(n.left)
            exp_p = to_poly(n.right)
            return patom('pow(%s,%s)' % (base_s, show(exp_p)))
    if isinstance(n, ast.UnaryOp) and isinstance(n.op, ast.USub):
        return padd({}, to_poly(n.operand), -1)
    if isinstance(n, ast.UnaryOp) and isinstance(n.op, ast.UAdd):
        return to_poly(n.operand)
    return patom(cstr(n))


# ----------------------------------------------------------------------------
# canonical strings
# ----------------------------------------------------------------------------

def term(n: ast.AST) -> str:
    """canonical string of any value term"""
    if n is None:
        return 'None'
    if is_arith(n):
        return show(to_poly(n))
    return cstr(n)


_SAFE_ITER_CALLS = ('zip', 'enumerate', 'range', 'reversed', 'sorted')
_ITER_CONSUMERS = ('sum', 'math.fsum', 'fsum', 'min', 'max', 'list', 'set', 'sorted', 'any', 'all', 'tuple', 'frozenset', 'len', 'iter',
                   'enumerate', 'zip', 'reversed', 'dict.fromkeys')


def iter_canon(n: ast.AST, consumed_at_once: bool = False) -> ast.AST:
    """one form for an expression that is only *iterated*:  D.keys() -> D  (iterating a mapping visits its keys);
    list(Z) / tuple(Z) -> Z for a Z nothing can change while it is consumed (zip/enumerate/range/... or a
    comprehension);  (x for x in S) -> S"""
    while True:
        if isinstance(n, ast.Call) and isinstance(n.func, ast.Attribute) and n.func.attr == 'keys' and not n.args and not n.keywords:
            n = n.func.value
            continue
        if isinstance(n, ast.Call) and isinstance(n.func, ast.Name) and n.func.id in ('list', 'tuple') and len(n.args) == 1 \
                and not n.keywords:
            z = n.args[0]
            # consumed_at_once: the iterable is used up inside one expression (a comprehension, sum(), enumerate() ..),
            # nothing can run in between, so materialising it first makes no difference
            if consumed_at_once or (isinstance(z, ast.Call) and isinstance(z.func, ast.Name) and z.func.id in _SAFE_ITER_CALLS) or \
                    isinstance(z, (ast.GeneratorExp, ast.ListComp)):
                n = z
                continue
        if isinstance(n, (ast.GeneratorExp, ast.ListComp) if consumed_at_once else ast.GeneratorExp) and len(n.generators) == 1 and not n.generators[0].ifs \
                and isinstance(n.elt, ast.Name) and isinstance(n.generators[0].target, ast.Name) \
                and n.elt.id == n.generators[0].target.id:
            n = n.generators[0].iter
            continue
        if consumed_at_once and isinstance(n, ast.ListComp):
            # sum([e for x in S]) is sum(e for x in S): the list is used up inside the consuming call
            return ast.copy_location(ast.GeneratorExp(elt=n.elt, generators=n.generators), n)
        return n


def _int_arith(e) -> bool:
    """an expression that is an int whenever its leaves are: built from //, %, len(), int literals, +, -, *, ** of such,
    and containing at least one // or len()"""
    def ok(x):
        if isinstance(x, ast.Constant):
            return isinstance(x.value, int) and not isinstance(x.value, bool)
        if isinstance(x, ast.Name):
            return True
        if isinstance(x, ast.Call) and isinstance(x.func, ast.Name) and x.func.id == 'len':
            return True
        if isinstance(x, ast.BinOp) and isinstance(x.op, (ast.FloorDiv, ast.Mod, ast.Add, ast.Sub, ast.Mult, ast.Pow)):
            return ok(x.left) and ok(x.right)
        return False
    has = any((isinstance(x, ast.BinOp) and isinstance(x.op, (ast.FloorDiv, ast.Mod))) or
              (isinstance(x, ast.Call) and isinstance(x.func, ast.Name) and x.func.id == 'len') for x in ast.walk(e))
    return has and ok(e)


def _gen_iter(it):
    """the iterable of a comprehension clause: consumed inside the expression"""
    it = iter_canon(it, consumed_at_once=True)
    if isinstance(it, ast.Call) and isinstance(it.func, ast.Name) and it.func.id in ('enumerate', 'zip', 'reversed') and it.args:
        it = ast.Call(func=it.func, args=[iter_canon(a, consumed_at_once=True) for a in it.args], keywords=it.keywords)
    return it


def cstr(n: ast.AST) -> str:
    if isinstance(n, ast.Call):
        f = cstr(n.func)
        if not n.args and not n.keywords and f in ('dict', 'list', 'tuple'):
            return {'dict': '{}', 'list': '[]', 'tuple': '()'}[f]            # dict() is {}, list() is []
        if f == 'dict' and len(n.args) == 1 and not n.keywords and isinstance(n.args[0], (ast.GeneratorExp, ast.ListComp)) \
                and isinstance(n.args[0].elt, ast.Tuple) and len(n.args[0].elt.elts) == 2:
            # dict((k, v) for ...) is the dict comprehension {k: v for ...}
            g = n.args[0]
            return cstr(ast.DictComp(key=g.elt.elts[0], value=g.elt.elts[1], generators=g.generators))
        def _plain_load(v):
            return isinstance(v, (ast.Constant, ast.Name)) or (isinstance(v, ast.Attribute) and _plain_load(v.value))
        if f == 'dict.fromkeys' and len(n.args) in (1, 2) and not n.keywords and \
                (len(n.args) == 1 or _plain_load(n.args[1])):
            # dict.fromkeys(S, c) is {k: c for k in S}: one shared value - a constant, or a plain load, which the
            # comprehension shares between the keys just the same (not a display or a call, which it would repeat)
            k = ast.Name(id='_fk', ctx=ast.Load())
            return cstr(ast.DictComp(key=k, value=n.args[1] if len(n.args) == 2 else ast.Constant(value=None),
                                     generators=[ast.comprehension(target=ast.Name(id='_fk', ctx=ast.Store()), iter=n.args[0],
                                                                   ifs=[], is_async=0)]))
        cargs = list(n.args)
        if f == 'dict' and len(n.args) == 1 and not n.keywords and isinstance(n.args[0], ast.Call) \
                and isinstance(n.args[0].func, ast.Name) and n.args[0].func.id == 'enumerate' and len(n.args[0].args) == 1:
            # dict(enumerate(S)) is {i: x for i, x in enumerate(S)}
            i, v = ast.Name(id='_ei', ctx=ast.Load()), ast.Name(id='_ev', ctx=ast.Load())
            tgt = ast.Tuple(elts=[ast.Name(id='_ei', ctx=ast.Store()), ast.Name(id='_ev', ctx=ast.Store())], ctx=ast.Store())
            return cstr(ast.DictComp(key=i, value=v, generators=[ast.comprehension(target=tgt, iter=n.args[0], ifs=[], is_async=0)]))
        if f == 'int' and len(cargs) == 1 and not n.keywords and _int_arith(cargs[0]):
            return term(cargs[0])                               # int() of integer arithmetic
        if f.split('.')[-1] in ('add_nodes_from', 'add_edges_from') and cargs:
            cargs[0] = iter_canon(cargs[0], consumed_at_once=True)   # networkx: the first argument is only iterated
        if f in _ITER_CONSUMERS and cargs:
            once = f not in ('list', 'tuple', 'sorted', 'iter', 'reversed', 'zip', 'enumerate')   # these hand the items on
            cargs[0] = iter_canon(cargs[0], consumed_at_once=once)          # consumed as an iterable
            if f == 'zip':
                cargs = [iter_canon(a) for a in cargs]
        args = [term(a) for a in cargs]
        if f in COMMUTATIVE_CALLS:
            args = sorted(args)
        kws = sorted('%s=%s' % (k.arg if k.arg else '**', term(k.value)) for k in n.keywords)
        return f + '(' + ','.join(args + kws) + ')'
    if isinstance(n, ast.Attribute):
        return cstr(n.value) + '.' + n.attr
    if isinstance(n, ast.Name):
        return n.id
    if isinstance(n, ast.Subscript):
        return cstr(n.value) + '[' + term(n.slice) + ']'
    if isinstance(n, ast.Slice):
        return '%s:%s:%s' % (term(n.lower) if n.lower else '', term(n.upper) if n.upper else '',
                             term(n.step) if n.step else '')
    if isinstance(n, ast.Constant):
        if isinstance(n.value, float) and n.value == int(n.value) and abs(n.value) < 1e15:
            return repr(int(n.value))
        return repr(n.value)
    if isinstance(n, (ast.Tuple, ast.List)):
        br = '()' if isinstance(n, ast.Tuple) else '[]'
        return br[0] + ','.join(term(e) for e in n.elts) + br[1]
    if isinstance(n, ast.Dict):
        return '{' + ','.join('%s:%s' % (term(k) if k else '**', term(v)) for k, v in zip(n.keys, n.values)) + '}'
    if isinstance(n, ast.Set):
        return '{' + ','.join(sorted(term(e) for e in n.elts)) + '}'
    if isinstance(n, ast.Starred):
        return '*' + term(n.value)
    if isinstance(n, ast.IfExp):
        return 'ite(%s,%s,%s)' % (cond_str(n.test), term(n.body), term(n.orelse))
    if isinstance(n, ast.BoolOp) or isinstance(n, ast.Compare) or (
            isinstance(n, ast.UnaryOp) and isinstance(n.op, ast.Not)):
        return cond_str(n)
    if isinstance(n, ast.JoinedStr):
        return 'fstr'
    if isinstance(n, ast.Lambda):
        names = [a.arg for a in n.args.args]
        body = _alpha(n.body, names)
        return 'lambda(%d:%s)' % (len(names), term(body))
    if isinstance(n, (ast.GeneratorExp, ast.ListComp, ast.SetComp, ast.DictComp)) and not getattr(n, '_alpha_done', False):
        n = _fuse_comp(n)
        n = _items_canon(n)
        names = []
        for g in n.generators:
            for x in ast.walk(g.target):
                if isinstance(x, ast.Name) and x.id not in names:
                    names.append(x.id)
        n2 = _alpha(n, names)
        n2._alpha_done = True
        return cstr(n2)
    if isinstance(n, (ast.GeneratorExp, ast.ListComp, ast.SetComp)):
        gens = ';'.join('%s in %s%s' % (term(g.target), term(_gen_iter(g.iter)),
                                         ''.join(' if ' + cond_str(c) for c in g.ifs)) for g in n.generators)
        k = {'GeneratorExp': 'gen', 'ListComp': 'list', 'SetComp': 'set'}[type(n).__name__]
        return '%s(%s for %s)' % (k, term(n.elt), gens)
    if isinstance(n, ast.DictComp):
        def _src(it):
            # iterating a dict built as {k: _ for k in D.keys()} visits the keys of D in the same order, once each
            if isinstance(it, ast.Call):
                return it
            if isinstance(it, ast.DictComp) and len(it.generators) == 1 and not it.generators[0].ifs \
                    and isinstance(it.key, ast.Name) and isinstance(it.generators[0].target, ast.Name) \
                    and it.key.id == it.generators[0].target.id:
                inner = it.generators[0].iter
                if (isinstance(inner, ast.Call) and isinstance(inner.func, ast.Attribute) and inner.func.attr == 'keys' and not inner.args) \
                        or isinstance(inner, (ast.Name, ast.Attribute)):
                    return iter_canon(inner)
            return it
        gens = ';'.join('%s in %s' % (term(g.target), term(_src(_gen_iter(g.iter)))) for g in n.generators)
        return 'dict(%s:%s for %s)' % (term(n.key), term(n.value), gens)
    if isinstance(n, ast.BinOp):
        return '(%s %s %s)' % (term(n.left), type(n.op).__name__, term(n.right))
    if isinstance(n, ast.Yield):
        return 'yield(%s)' % term(n.value)
    try:
        return ast.unparse(n)
    except Exception:  # pragma: no cover
        return '<%s>' % type(n).__name__


def _items_canon(n):
    """`for k, v in D.items()` is `for k in D` with v standing for D[k] (D not changed by a comprehension)"""
    import copy
    if not any(isinstance(g.target, ast.Tuple) and len(g.target.elts) == 2 and all(isinstance(e, ast.Name) for e in g.target.elts)
               and isinstance(g.iter, ast.Call) and isinstance(g.iter.func, ast.Attribute) and g.iter.func.attr == 'items'
               and not g.iter.args and not g.iter.keywords for g in n.generators):
        return n
    n = copy.deepcopy(n)
    for gi, g in enumerate(n.generators):
        if isinstance(g.target, ast.Tuple) and len(g.target.elts) == 2 and all(isinstance(e, ast.Name) for e in g.target.elts) \
                and isinstance(g.iter, ast.Call) and isinstance(g.iter.func, ast.Attribute) and g.iter.func.attr == 'items' \
                and not g.iter.args and not g.iter.keywords:
            k, v = g.target.elts[0].id, g.target.elts[1].id
            if k == v:
                continue
            d = g.iter.func.value
            sub = ast.Subscript(value=d, slice=ast.Name(id=k, ctx=ast.Load()), ctx=ast.Load())

            class R(ast.NodeTransformer):
                def visit_Name(self, x):
                    if x.id == v and isinstance(x.ctx, ast.Load):
                        return copy.deepcopy(sub)
                    return x
            g.target = ast.Name(id=k, ctx=ast.Store())
            g.iter = d
            g.ifs = [R().visit(c) for c in g.ifs]
            for g2 in n.generators[gi + 1:]:
                g2.iter = R().visit(g2.iter)
                g2.ifs = [R().visit(c) for c in g2.ifs]
            if isinstance(n, ast.DictComp):
                n.key = R().visit(n.key)
                n.value = R().visit(n.value)
            else:
                n.elt = R().visit(n.elt)
    return n


def _fuse_comp(n):
    """(E(a, b) for a, b in ((A(z), B(z)) for z in S))  is  (E(A(z), B(z)) for z in S): a comprehension over a generator
    expression / list comprehension that only pairs values up is one comprehension"""
    import copy
    if len(n.generators) != 1:
        return n
    g = n.generators[0]
    inner = g.iter
    if not isinstance(inner, (ast.GeneratorExp, ast.ListComp)) or len(inner.generators) != 1:
        return n
    tgt = g.target
    if isinstance(tgt, ast.Name):
        names, parts = [tgt.id], [inner.elt]
    elif isinstance(tgt, ast.Tuple) and isinstance(inner.elt, ast.Tuple) and len(tgt.elts) == len(inner.elt.elts) \
            and all(isinstance(t, ast.Name) for t in tgt.elts):
        names, parts = [t.id for t in tgt.elts], list(inner.elt.elts)
    else:
        return n
    inner_names = {x.id for x in ast.walk(inner.generators[0].target) if isinstance(x, ast.Name)}
    if inner_names & set(names):
        return n
    m = dict(zip(names, parts))

    class _S(ast.NodeTransformer):
        def visit_Name(self, x):
            if isinstance(x.ctx, ast.Load) and x.id in m:
                return copy.deepcopy(m[x.id])
            return x
    n2 = copy.deepcopy(n)
    ig = copy.deepcopy(inner.generators[0])
    ig.ifs = list(ig.ifs) + [_S().visit(c) for c in n2.generators[0].ifs]
    n2.generators = [ig]
    if isinstance(n2, ast.DictComp):
        n2.key, n2.value = _S().visit(n2.key), _S().visit(n2.value)
    else:
        n2.elt = _S().visit(n2.elt)
    return n2


def _alpha(node, names):
    """rename bound variables positionally (%b1, %b2, ..): alpha-equivalent terms get one string"""
    import copy
    m = {nm: '%%b%d' % (i + 1) for i, nm in enumerate(names)}
    n2 = copy.deepcopy(node)
    for x in ast.walk(n2):
        if isinstance(x, ast.Name) and x.id in m:
            x.id = m[x.id]
    return n2


# ----------------------------------------------------------------------------
# literals
# ----------------------------------------------------------------------------
# A literal is (atom, polarity).  Atoms:
#   ('cmp', dim, const, op)   meaning  dim + const  op  0,  dim = canonical
#                             string of the non-constant part with positive
#                             leading coefficient normalised to ... (see below)
#   ('none', t)               t is None
#   ('truthy', t)             bool(t)
#   ('bit', s)                opaque boolean (membership, isinstance, ==str ..)

FLIP = {'<': '>', '>': '<', '<=': '>=', '>=': '<=', '==': '==', '!=': '!='}
NEG = {'<': '>=', '>': '<=', '<=': '>', '>=': '<', '==': '!=', '!=': '=='}
OPS = {ast.Lt: '<', ast.LtE: '<=', ast.Gt: '>', ast.GtE: '>=', ast.Eq: '==', ast.NotEq: '!='}


def cmp_atom(left: ast.AST, op: str, right: ast.AST):
    p = padd(to_poly(left), to_poly(right), -1)
    q, c = split_const(p)
    if not q:
        # constant comparison
        val = {'<': c < 0, '<=': c <= 0, '>': c > 0, '>=': c >= 0, '==': c == 0, '!=': c != 0}[op]
        return ('const', val)
    # normalise: leading coefficient (last in sorted order) becomes +1
    lead = sorted(q.items())[-1][1]
    if lead < 0:
        op = FLIP[op]
    q = {m: cc / lead for m, cc in q.items()}
    c = c / lead
    return ('cmp', show(q), c, op)


def _is_nonarith_value(n: ast.AST) -> bool:
    return (isinstance(n, ast.Constant) and (isinstance(n.value, (str, bytes, bool)) or n.value is None))


def atom_of(n: ast.AST):
    """(atom, polarity) for an atomic boolean expression (no and/or/not at the
    top; those are split by the path executor)."""
    if isinstance(n, ast.UnaryOp) and isinstance(n.op, ast.Not):
        a, pol = atom_of(n.operand)
        return a, not pol
    if isinstance(n, ast.Constant):
        return ('const', bool(n.value)), True
    if isinstance(n, ast.Compare) and len(n.ops) == 1:
        op, r, l = n.ops[0], n.comparators[0], n.left
        if isinstance(op, (ast.Is, ast.IsNot)):
            pol = isinstance(op, ast.Is)
            for a_, b_ in ((l, r), (r, l)):
                if isinstance(b_, ast.Constant) and b_.value is None and isinstance(a_, (ast.Tuple, ast.List, ast.Dict, ast.Set, ast.ListComp, ast.DictComp)):
                    return ('const', not pol), True          # a display is never None
            if isinstance(r, ast.Constant) and isinstance(l, ast.Constant) and (r.value is None or l.value is None):
                # a constant compared with None by identity is decided here (a local known to hold None)
                return ('const', ((l.value is None) == (r.value is None)) == pol), True
            if isinstance(r, ast.Constant) and r.value is None:
                return ('none', term(l)), pol
            if isinstance(l, ast.Constant) and l.value is None:
                return ('none', term(r)), pol
            a, b = sorted([term(l), term(r)])
            return ('bit', '%s is %s' % (a, b)), pol
        if isinstance(op, (ast.In, ast.NotIn)):
            return ('bit', '%s in %s' % (term(l), term(r))), isinstance(op, ast.In)
        if type(op) in OPS:
            o = OPS[type(op)]
            if o in ('==', '!=') and (_is_nonarith_value(l) or _is_nonarith_value(r)):
                a, b = sorted([term(l), term(r)])
                return ('bit', '%s == %s' % (a, b)), o == '=='
            a = cmp_atom(l, o, r)
            if a[0] == 'const':
                return a, True
            # fold the polarity of the operator into a canonical operator set
            # {<, <=, ==}: '>' is 'not <=', '>=' is 'not <', '!=' is 'not =='
            _, dim, c, o = a
            if o in ('>', '>=', '!='):
                return ('cmp', dim, c, NEG[o]), False
            return ('cmp', dim, c, o), True
    if isinstance(n, ast.Call) and isinstance(n.func, ast.Name) and n.func.id == 'isinstance' and len(n.args) == 2:
        return ('bit', 'isinstance(%s,%s)' % (term(n.args[0]), term(n.args[1]))), True
    if isinstance(n, ast.Call) and isinstance(n.func, ast.Name) and n.func.id == 'hasattr' and len(n.args) == 2:
        return ('bit', 'hasattr(%s,%s)' % (term(n.args[0]), term(n.args[1]))), True
    if isinstance(n, ast.Call) and isinstance(n.func, ast.Name) and n.func.id == 'bool' and len(n.args) == 1:
        return atom_of(n.args[0])
    if isinstance(n, (ast.Tuple, ast.List)) and n.elts and not any(isinstance(e, ast.Starred) for e in n.elts):
        return ('const', True), True              # a non-empty display is truthy
    return ('truthy', term(n)), True


def lit_str(lit) -> str:
    (a, pol) = lit
    k = a[0]
    if k == 'cmp':
        _, dim, c, o = a
        if not pol:
            o = NEG[o]
        if c == 0:
            return '%s %s 0' % (dim, o)
        return '%s %s %s' % (dim, o, -c)
    if k == 'none':
        return '%s is %sNone' % (a[1], '' if pol else 'not ')
    if k == 'truthy':
        return ('%s' if pol else 'not %s') % a[1]
    if k == 'bit':
        return ('%s' if pol else 'not (%s)') % a[1]
    if k == 'const':
        return str(a[1] == pol)
    return repr(lit)


def cond_str(n: ast.AST) -> str:
    """canonical string of a boolean expression used as a *value* (not split)"""
    if isinstance(n, ast.BoolOp):
        k = 'and' if isinstance(n.op, ast.And) else 'or'
        vals = []
        for v in n.values:              # (A and (B and C)) reads as (A and B and C)
            if isinstance(v, ast.BoolOp) and type(v.op) is type(n.op):
                vals.extend(v.values)
            else:
                vals.append(v)
        return '(' + (' %s ' % k).join(cond_str(v) for v in vals) + ')'
    if isinstance(n, ast.UnaryOp) and isinstance(n.op, ast.Not):
        a = n.operand
        if isinstance(a, ast.UnaryOp) and isinstance(a.op, ast.Not):
            return cond_str(a.operand)                                  # not not X
        if not isinstance(a, ast.BoolOp):
            return lit_str(_flip(atom_of(a)))
        # De Morgan: negations are pushed down to the literals, so that `not (A and B)` and `not A or not B` read alike
        dual = ast.Or() if isinstance(a.op, ast.And) else ast.And()
        return cond_str(ast.BoolOp(op=dual, values=[ast.UnaryOp(op=ast.Not(), operand=v) for v in a.values]))
    if isinstance(n, ast.Compare) and len(n.ops) > 1:
        parts = []
        l = n.left
        for op, r in zip(n.ops, n.comparators):
            parts.append(cond_str(ast.Compare(left=l, ops=[op], comparators=[r])))
            l = r
        return '(' + ' and '.join(parts) + ')'
    return lit_str(atom_of(n))


def _flip(lit):
    return lit[0], not lit[1]
