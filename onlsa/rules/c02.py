"""C02 - every waiter gets the outcome exactly once; failures are never lost"""
from . import kernel, whomay

def check(ctx):
    kernel.run_tables(ctx, 'C02', [
        ('Environment', 'step'), ('Event', '__init__'), ('Event', 'succeed'), ('Event', 'fail'), ('Event', 'trigger'),
        ('Event', 'triggered'), ('Event', 'processed'), ('Event', 'ok'), ('Event', 'value'), ('Event', 'defused'),
        ('Process', '_resume'), ('Process', '__init__'), ('Process', 'is_alive'), ('Process', 'succeed'), ('Process', 'fail'), ('Process', 'trigger'), ('Condition', '_check'), ('Interruption', '__init__'), ('StopSimulation', 'callback'), ('Environment', 'run'),
    ])
    whomay.outcome_writers(ctx, 'C02')
    whomay.callback_list_discipline(ctx, 'C02')
    whomay.exception_cloning(ctx, 'C02')
    whomay.step_failures_escape(ctx, 'C02')
    whomay.raising_callbacks_private(ctx, 'C02')
    whomay.check_writers(ctx, 'C02.W.defused', '_defused', {
        'Event.defused.setter': 'public setter', 'Event.defused': 'public setter', 'Interruption.__init__': 'interrupts are pre-defused',
        'Process._resume': 'the failure is thrown into the process', 'Condition._check': 'the failure is forwarded to the condition'}, 4,
        'a failure is marked handled only where it is actually handed to a handler')
    return ('Static analysis of the dispatch mechanism: path tables of Environment.step (callbacks swapped to None, '
            'each callback once in list order, undefused failure re-raised as a copy), Event.succeed/fail/trigger '
            '(second trigger refused before any write), Process._resume (value sent / failure defused and thrown as a '
            'copy, termination outcome, immediate continuation on processed events, single subscription) compared with '
            'reference tables; who-may scans of _ok/_value writers and of every growth/removal of a callbacks list; '
            'exception classes accept cls(*args).')
