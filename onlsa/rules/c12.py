"""C12 - schedulers are work-conserving, non-preemptive, rate-exact, per-flow FIFO"""
from . import sched as S, resources as R, elements, keydomains, deps

def check(ctx):
    S.run_tables(ctx, 'C12', [k[:2] for k in S.SPECS])
    R.run_tables(ctx, 'C12', [('Store', '_do_put@unbounded'), ('Store', '_do_get'), ('PriorityStore', '_do_put@unbounded'),
                              ('PriorityStore', '_do_get'), ('PriorityItem', '__lt__')])
    elements.send_packet_awaited(ctx, 'C12')
    elements.server_yield_whitelist(ctx, 'C12')
    elements.departure_bookkeeping_atomic(ctx, 'C12')
    keydomains.check(ctx, 'C12')
    elements.spawn_sites(ctx, 'C12', only=('SP', 'WFQ', 'VC', 'DRR', 'RR', 'WRR', 'Monitor'))
    elements.class_method_sets(ctx, 'C12', only=('Scheduler', 'MultiQueueScheduler', 'SP', 'WFQ', 'VC', 'DRR', 'RR', 'WRR', 'Monitor'))
    deps.element_layers(ctx, 'C12')
    return ('Static: Scheduler.send_packet (one timeout 8*size/rate, counters released under the same key as the '
            'increments, one forward, in-service cleared), MultiQueueScheduler.put (wake-up token iff empty on entry) and '
            'every scheduler\'s put/run and Monitor.run compared with reference tables; every use of send_packet is '
            'spawned and awaited; the only suspension points of a server loop are the dequeue, the awaited send and the '
            'guarded wake-up wait; key domains (flow id vs class id) never mixed in one dictionary. "The very instant the '
            'previous one ends" is a timing statement and is not decided.')
