"""Path, shape, flow and who-may rules on the network elements (kinds C-G)."""
import ast
import re

from ..model import walk_local, AnalysisError
from ..paths import Options, loops_of
from ..terms import term
from . import whomay

# ---------------------------------------------------------------------------- registry (C08.R0)

REGISTRY = {
    # class -> kind
    'Port': 'queueing', 'REDPort': 'queueing', 'Wire': 'queueing', 'TokenBucket': 'queueing',
    'TwoRateTokenBucket': 'queueing', 'MultiQueueScheduler': 'queueing', 'WFQ': 'queueing', 'VC': 'queueing',
    'DRR': 'queueing', 'SP': 'queueing',
    'FlowDemux': 'router', 'RandomDemux': 'router', 'FIBDemux': 'router', 'SimplePacketSwitch': 'router',
    'FairPacketSwitch': 'router',
    'Hub': 'replicator', 'Splitter': 'replicator', 'NSplitter': 'replicator',
    'PacketSink': 'terminal', 'TCPSink': 'terminal', 'TCPPacketGenerator': 'terminal',
    'Device': 'abstract', 'Scheduler': 'abstract',
    'ProxyPacketGenerator': 'excluded (real sockets)', 'ProxySink': 'excluded (real sockets)',
}


def _put_classes(repo):
    out = []
    for c in repo.all_classes():
        f = c.own('put')
        if f is not None and len([p for p in f.params if p != 'self']) >= 1 and not repo.is_extracted_base(c):
            out.append(c)
    return out


def registry(ctx, prop):
    rule = prop + '.S.registry'
    cls = _put_classes(ctx.repo)
    ctx.floor(rule, len(cls), 20, 'classes with put(packet)')
    for c in cls:
        ctx.consulted.add(c.module.relpath)
        if c.name not in REGISTRY:
            raise AnalysisError('%s: class %s (%s) defines put(packet) but is not classified in the element registry: '
                                'undecided' % (rule, c.name, c.module.relpath))
        ctx.ob(rule, True)
    ctx.sample(rule, 'onl/**', 'all %d classes with put(packet) are classified: %s' % (
        len(cls), ', '.join('%s=%s' % (c.name, REGISTRY[c.name].split()[0]) for c in cls)))


# ---------------------------------------------------------------------------- disposal (C08.R1)

def _mentions(s, sym):
    return re.search(r'(?<![\w@])%s(?![\w])' % re.escape(sym), s) is not None


def _dispositions(path, sym='@p1'):
    """events on a path that dispose of the packet symbol"""
    out = []
    for e in path.effects:
        if e.kind == 'call' and e.target.endswith('.put') and any(_mentions(a, sym) for a in e.args):
            recv = e.target[:-4]
            if recv.endswith('store') or '.stores[' in recv or recv.endswith('.stores') or '.store' in recv.split('.')[-1]:
                out.append(('hold', e))
            else:
                out.append(('forward', e))
        elif e.kind == 'write' and e.target == 'self.packets_dropped':
            out.append(('drop', e))
        elif e.kind == 'loop':
            out.append(('loop', e))
    return out


NO_ROUTE = {
    # router paths that may legally dispose of nothing: (class, substring that must occur in the path condition)
    'FlowDemux': 'default_out', 'FIBDemux': 'default_out',
}


def put_disposes_once(ctx, prop):
    rule = prop + '.C.put_once'
    n = 0
    for c in _put_classes(ctx.repo):
        kind = REGISTRY.get(c.name, '')
        if kind not in ('queueing', 'router'):
            continue
        f = c.own('put')
        paths = ctx.paths(c, f, Options())
        construct = '%s::%s.put' % (f.module.relpath, c.name)
        for p in paths:
            if p.exit == 'raise':
                continue
            n += 1
            d = [k for k, _ in _dispositions(p)]
            real = [k for k in d if k != 'loop']
            ok = len(real) == 1
            why = ''
            if len(real) == 0 and kind == 'router':
                cs = p.cond_str()
                ok = (NO_ROUTE.get(c.name, '\0') in cs and ('not self.%s' % NO_ROUTE[c.name]) in cs) or \
                    (c.name == 'FIBDemux' and 'not self.outs[' in cs)     # the named port has nothing attached
                why = 'documented no-route'
            ctx.ob(rule, ok)
            if ok:
                ctx.sample(rule, construct, 'path [%s] disposes of the packet exactly once: %s %s' % (p.cond_str()[:160], real, why))
            else:
                ctx.violation(rule, construct, 'path disposes of the packet %d times: %s' % (len(real), real),
                              '%s.put: on the path [%s] the packet is %s' % (
                                  c.name, p.cond_str()[:200],
                                  'silently lost (no hold, forward or counted drop)' if not real else 'disposed of %d times %s (duplication)' % (len(real), real)),
                              where='%s:%d' % (f.module.relpath, p.lits[-1][2] if p.lits else f.node.lineno))
    ctx.floor(rule, n, 30, 'put() paths')


# ---------------------------------------------------------------------------- forward the dequeued packet (C08.R2)

def run_forwards_dequeued(ctx, prop):
    """per service-loop iteration of every element's run(): each forward hands on a value that
    came out of a dequeue (the very object: not a copy, not a new Packet), at most one forward per dequeue"""
    rule = prop + '.C.run_forward'
    n = 0
    for c in ctx.repo.all_classes():
        if REGISTRY.get(c.name) != 'queueing' or c.own('run') is None:
            continue
        f = c.own('run')
        if not f.is_generator():
            continue
        paths = ctx.paths(c, f, Options())
        construct = '%s::%s.run' % (f.module.relpath, c.name)
        for reg in loops_of(paths):
            for p in reg.paths:
                deq = [e.sym for e in p.effects if e.kind == 'yield' and '.get()' in e.value and 'packets_available' not in e.value
                       and 'cwnd' not in e.value]
                fwd = []
                for e in p.effects:
                    if e.kind == 'call' and e.target.endswith('.put') and ('out' in e.target.split('.')[-2] if '.' in e.target else False):
                        fwd.append((e, e.args[0] if e.args else ''))
                    elif e.kind == 'call' and e.target.endswith('.process') and e.args and _is_transmission_arg(c, e.args[0]):
                        fwd.append((e, e.args[0]))
                if not fwd and not deq:
                    continue
                n += 1
                ok = True
                msg = ''
                for e, a in fwd:
                    if 'copy(' in a or 'Packet(' in a:
                        ok, msg = False, 'forwards a copy / a new packet (%s)' % a
                    elif not ('@yield#' in a or 'head_of_line' in a or '@L' in a or '.get().value' in a):
                        ok, msg = False, 'forwards a value that did not come out of the queue (%s)' % a
                if ok and len(deq) >= 1 and len(fwd) > len(deq) + (1 if 'head_of_line' in ''.join(a for _, a in fwd) else 0) + ''.join(a for _, a in fwd).count('.get().value'):
                    ok, msg = False, '%d forwards for %d dequeues' % (len(fwd), len(deq))
                ctx.ob(rule, ok)
                if ok:
                    ctx.sample(rule, construct, 'iteration path [%s]: dequeues %d, forwards %s' % (p.cond_str()[:120], len(deq), [a for _, a in fwd]))
                else:
                    ctx.violation(rule, construct, msg, '%s.run: %s' % (c.name, msg), where='%s:%d' % (f.module.relpath, fwd[0][0].lineno if fwd else reg.lineno))
    ctx.floor(rule, n, 15, 'service-loop iteration paths')


# ---------------------------------------------------------------------------- producer / consumer shape (C08.R3)

def store_shape_agreement(ctx, prop, only=None):
    rule = prop + '.E.store_shape'
    n = 0
    for c in ctx.repo.all_classes():
        if only and c.name not in only:
            continue
        if REGISTRY.get(c.name) != 'queueing' or c.own('put') is None or c.own('run') is None:
            continue
        fp, fr = c.own('put'), c.own('run')
        produced = set()
        for p in ctx.paths(c, fp, Options()):
            for e in p.effects:
                if e.kind == 'call' and e.target in ('self.store.put',) and e.args:
                    a = e.args[0]
                    produced.add('PriorityItem' if a.startswith('@PriorityItem(') or a.startswith('PriorityItem(') else
                                 'tuple' if a.startswith('(') else 'packet' if a == '@p1' else 'other:' + a[:40])
        if not produced:
            continue
        consumed = set()
        paths = ctx.paths(c, fr, Options())
        for reg in loops_of(paths):
            for p in reg.paths:
                syms = [e.sym for e in p.effects if e.kind == 'yield' and e.value == 'self.store.get()']
                # a synchronous take `self.store.get().value` dequeues as well
                syms += [e.sym + '.value' for e in p.effects if e.kind == 'call' and e.target == 'self.store.get' and e.sym]
                # putting the dequeued entry back into the same store is not a use of it as a packet
                requeue = set(syms)
                text = ' ; '.join(e.key() for e in p.effects
                                  if not (e.kind == 'call' and e.target == 'self.store.put' and e.args and e.args[0] in requeue)) \
                    + ' ; ' + p.cond_str()
                for s in syms:
                    if (s + '.item') in text:
                        consumed.add('PriorityItem')
                    if (s + '[') in text:
                        consumed.add('tuple')
                    if re.search(re.escape(s) + r'\.(size|flow_id|packet_id|color)', text) or re.search(r'\(' + re.escape(s) + r'\)', text):
                        consumed.add('packet')
        n += 1
        ok = produced == consumed or not consumed
        ctx.ob(rule, ok)
        construct = '%s::%s' % (fp.module.relpath, c.name)
        if ok:
            ctx.sample(rule, construct, 'put() stores %s, run() takes %s' % (sorted(produced), sorted(consumed)))
        else:
            ctx.violation(rule, construct, 'put stores %s, run expects %s' % (sorted(produced), sorted(consumed)),
                          '%s: put() stores %s into self.store but run() uses what it dequeues as %s' % (c.name, sorted(produced), sorted(consumed)),
                          where=fr.where)
    ctx.floor(rule, n, 2 if only else 4, 'store producer/consumer pairs')


# ---------------------------------------------------------------------------- identity fields (C08.R4)

IDENTITY = ('packet_id', 'flow_id', 'src', 'size', 'time', 'payload')


def packet_identity_writers(ctx, prop):
    rule = prop + '.W.identity'
    n = 0
    allowed_foreign = {('TCPPacketGenerator.resend_packet', 'time'): 'the sender re-stamps its own segment on retransmission'}
    for attr in IDENTITY:
        for f, node, kind in whomay.attr_writers(ctx.repo, attr):
            tgts = node.targets if isinstance(node, ast.Assign) else [getattr(node, 'target', None)]
            for t in tgts:
                while isinstance(t, ast.Subscript):
                    t = t.value
                if not isinstance(t, ast.Attribute) or t.attr != attr:
                    continue
                recv = term(t.value)
                n += 1
                if recv == 'self':
                    ok = not (f.cls is not None and f.cls.name == 'Packet' and whomay.root_callers(ctx.repo, f, stop=('Packet.__init__',)) != {'Packet.__init__'})
                    why = 'own field of %s' % (f.cls.name if f.cls else '?')
                else:
                    ok = all((r, attr) in allowed_foreign for r in whomay.root_callers(ctx.repo, f, stop=tuple(q for q, _ in allowed_foreign)))
                    why = allowed_foreign.get((f.qualname, attr), 'helper of the sender re-stamp')
                ctx.ob(rule, ok)
                if ok:
                    ctx.sample(rule, '%s::%s' % (f.module.relpath, f.qualname), 'write to .%s: %s' % (attr, why))
                else:
                    ctx.violation(rule, '%s::%s' % (f.module.relpath, f.qualname), 'write to %s.%s' % (recv, attr),
                                  '%s changes the identifying field .%s of a packet it was handed' % (f.qualname, attr),
                                  where='%s:%d' % (f.module.relpath, node.lineno))
    ctx.floor(rule, n, 8, 'identity-field writer sites')


# ---------------------------------------------------------------------------- asserts on state (C08.R9)

def state_asserts(ctx, prop, only=None):
    """an assert in a server loop whose operand is a numeric level the same loop may set to 0 can abort the data path"""
    rule = prop + '.G.state_assert'
    n = 0
    for c in ctx.repo.all_classes():
        if only and c.name not in only:
            continue
        if REGISTRY.get(c.name) != 'queueing' or c.own('run') is None:
            continue
        f = c.own('run')
        zeroed = set()
        for node in walk_local(f.node):
            if isinstance(node, ast.Assign) and isinstance(node.value, ast.Constant) and node.value.value in (0, 0.0) \
                    and not isinstance(node.value.value, bool):
                for t in node.targets:
                    if isinstance(t, ast.Attribute) and isinstance(t.value, ast.Name) and t.value.id == 'self':
                        zeroed.add(t.attr)
            if isinstance(node, ast.AugAssign) and isinstance(node.op, ast.Sub):
                t = node.target
                if isinstance(t, ast.Attribute) and isinstance(t.value, ast.Name) and t.value.id == 'self':
                    zeroed.add(t.attr)
        for node in walk_local(f.node):
            if isinstance(node, ast.Assert):
                n += 1
                bad = None
                for m in ast.walk(node.test):
                    if isinstance(m, ast.Attribute) and isinstance(m.value, ast.Name) and m.value.id == 'self' and m.attr in zeroed:
                        bad = m.attr
                ok = bad is None
                ctx.ob(rule, ok)
                if ok:
                    ctx.sample(rule, '%s::%s.run' % (f.module.relpath, c.name), 'assert %s is on configuration, not on a level' % ast.unparse(node.test))
                else:
                    ctx.violation(rule, '%s::%s.run' % (f.module.relpath, c.name), 'assert on self.%s' % bad,
                                  '%s.run asserts self.%s, which the same loop sets to 0 / debits: the server dies on a legal state' % (c.name, bad),
                                  where='%s:%d' % (f.module.relpath, node.lineno))
    ctx.floor(rule, n, 1 if only else 3, 'asserts in server loops')


# ---------------------------------------------------------------------------- spawn sites

NOT_SELF_SPAWNED = {'PortMonitor': 'spawned by the user', 'Splitter': 'run() refuses', 'NSplitter': 'run() refuses',
                    'Scheduler': 'abstract', 'MultiQueueScheduler': 'abstract', 'ProxyPacketGenerator': 'excluded',
                    'ProxySink': 'excluded', 'Testing': 'excluded'}


def spawn_sites(ctx, prop, only=None):
    """every element with a generator run(self, env) starts it exactly once in its constructor as
    env.process(self.run(env)) with its own environment (this is also what lets the analysis
    identify the parameter env with self.env)"""
    rule = prop + '.W.spawn'
    n = 0
    for c in ctx.repo.all_classes():
        if only and c.name not in only:
            continue
        f = c.own('run')
        if f is None or not f.is_generator() or c.name in NOT_SELF_SPAWNED or ctx.repo.is_extracted_base(c):
            continue
        init = c.lookup('__init__')
        if init is None:
            continue
        takes_env = len([p for p in f.params if p != 'self']) == 1
        env_idx = init.params.index('env') if 'env' in init.params else None
        envs = {'self.env', 'env'} | ({'@p%d' % env_idx} if env_idx is not None else set())
        bad = None
        npaths = 0
        for p in ctx.paths(c, init, Options()):
            if p.exit == 'raise':
                continue
            npaths += 1
            spawns = [e for e in p.effects if e.kind == 'call' and e.target.endswith('.process') and e.args
                      and e.args[0].startswith('self.run(')]
            if len(spawns) != 1:
                bad = '%d spawns of run() on the path [%s]' % (len(spawns), p.cond_str()[:100])
                break
            e = spawns[0]
            recv = e.target[:-len('.process')]
            arg = e.args[0][len('self.run('):-1]
            if recv not in envs or (takes_env and arg not in envs) or (not takes_env and arg):
                bad = 'spawned as %s.process(self.run(%s))' % (recv, arg)
                break
        n += 1
        ok = bad is None and npaths > 0
        ctx.ob(rule, ok)
        construct = '%s::%s.__init__' % (init.module.relpath, c.name)
        if ok:
            ctx.sample(rule, construct, 'server started exactly once with the element\'s own environment on all %d constructor paths' % npaths)
        else:
            ctx.violation(rule, construct, bad or 'no constructor path',
                          '%s must start its run() exactly once with its own environment: %s' % (c.name, bad), where=init.where)
    ctx.floor(rule, n, 1 if only and len(only) <= 2 else 2 if only else 8, 'self-spawning elements')


# ---------------------------------------------------------------------------- overrides that shadow anchored behaviour

def _is_abstract(fn) -> bool:
    body = [x for x in fn.body if not (isinstance(x, ast.Expr) and isinstance(x.value, ast.Constant))]
    if not body:
        return True
    if len(body) == 1 and isinstance(body[0], ast.Pass):
        return True
    if len(body) == 1 and isinstance(body[0], ast.Raise) and body[0].exc is not None and \
            re.search(r'not_?implemented', ast.unparse(body[0].exc), re.I):
        return True          # raise NotImplementedError(..) or a factory of that message (_not_implemented('put', ..))
    return False


def class_method_sets(ctx, prop, only=None):
    """a method added to a class that *shadows* an inherited method of an anchored base changes the
    behaviour of every reference table silently (e.g. a new total_packets in MultiQueueScheduler)"""
    rule = prop + '.S.overrides'
    from . import netdev, sched, tcp
    known = set()
    for S in (netdev.SPECS, sched.SPECS, tcp.SPECS):
        for k in S:
            known.add((k[0], k[1].split('.')[0]))
    n = 0
    known_names = ctx.repo.known_method_names()
    for c in ctx.repo.all_classes():
        if only and c.name not in only:
            continue
        if c.name not in REGISTRY and not only:
            continue
        for m, f in c.methods.items():
            base = m.split('.')[0]
            if base.startswith('__') and base != '__copy__':
                continue
            if base.startswith('_') and known_names is not None and base not in known_names:
                # a private hook the change introduced in a base and overrides here: the tables run in this class's
                # context and dispatch the hook to this definition
                continue
            inherited = None
            for b in c.mro()[1:]:
                if base in b.methods:
                    inherited = b
                    break
            if inherited is None or _is_abstract(f.node):
                continue
            n += 1
            ok = (c.name, base) in known or REGISTRY.get(c.name, '').startswith('excluded')
            ctx.ob(rule, ok)
            if not ok:
                ctx.violation(rule, '%s::%s.%s' % (f.module.relpath, c.name, m), 'override of %s.%s' % (inherited.name, base),
                              '%s.%s overrides %s.%s but no reference table covers it: inherited behaviour is shadowed' % (c.name, m, inherited.name, base),
                              where=f.where)
            else:
                ctx.sample(rule, '%s::%s.%s' % (f.module.relpath, c.name, m), 'override of %s.%s is covered by a reference table' % (inherited.name, base))
    if n == 0:
        ctx.ob(rule, True)


# ---------------------------------------------------------------------------- C09 specials

def plain_key(t: str) -> str:
    from ..paths import plain
    return plain(t)


def byte_accounting(ctx, prop):
    """inc/dec pairing: every accept path of a port's put() adds the packet's size to byte_size exactly once;
    every run() iteration that dequeues releases the dequeued packet's bytes exactly once - by recomputing the occupancy
    from the packets still waiting (the repaired form) or by subtracting its size"""
    rule = prop + '.C.byte_pairing'
    n = 0
    for c in ctx.repo.subclasses('Port'):
        fp = c.own('put')
        if fp is None:
            continue
        for p in ctx.paths(c, fp, Options()):
            holds = [e for e in p.effects if e.kind == 'call' and e.target == 'self.store.put']
            incs = [e for e in p.effects if e.kind == 'write' and e.target == 'self.byte_size']
            n += 1
            if holds:
                ok = len(incs) >= 1 and incs[-1].value in ('@p1.size + self.byte_size',)
            else:
                ok = not incs
            ctx.ob(rule, ok)
            if not ok:
                ctx.violation(rule, '%s::%s.put' % (fp.module.relpath, c.name),
                              'byte_size %s on an %s path' % ([e.value for e in incs], 'accept' if holds else 'drop'),
                              '%s.put: on the path [%s] the packet is %s but byte_size is %s' % (
                                  c.name, p.cond_str()[:160], 'enqueued' if holds else 'not enqueued',
                                  'not increased by its size' if holds else 'changed'),
                              where='%s:%d' % (fp.module.relpath, holds[0].lineno if holds else (incs[0].lineno if incs else fp.node.lineno)))
            else:
                ctx.sample(rule, '%s::%s.put' % (fp.module.relpath, c.name), '%s path: byte_size %s' % ('accept' if holds else 'drop', [e.value for e in incs]))
    port = ctx.repo.find_class('Port')
    fr = port.own('run')
    if fr is None:
        raise AnalysisError('anchor vanished: Port.run')
    for reg in loops_of(ctx.paths(port, fr, Options())):
        for p in reg.paths:
            deq = [e.sym for e in p.effects if e.kind == 'yield' and e.value == 'self.store.get()']
            if not deq:
                continue
            n += 1
            writes = [e for e in p.effects if e.kind == 'write' and e.target == 'self.byte_size']
            decs = [e for e in writes if e.value.startswith('-1*%s.size + self.byte_size' % deq[0])]
            # the only other write allowed: back to exactly 0 once nothing is held (after the release, queue empty)
            resets = [e for e in writes if e.value == '0']
            # the other form of release: the occupancy is recomputed from what is still waiting, sum / fsum of the sizes
            # of store.items, after the transmission time has passed (no yield after the recomputation's read)
            import re as _re
            recomp = [e for e in writes if _re.fullmatch(
                r'@?(?:math\.)?f?sum\((?:gen|list)\((%b\d+)\.size for \1 in self\.store\.items(?:@\d+)?\)\)(?:#\d+)?', e.value)]
            if recomp:
                idx = p.effects.index(recomp[-1])
                late = not any(e.kind == 'yield' for e in p.effects[idx:])
                recomp = recomp if late else []
            others = [e for e in writes if e not in decs and e not in resets and e not in recomp]
            empty = any(a[0] == 'truthy' and plain_key(a[1]) == 'self.store.items' and not pol for a, pol, _ in p.lits)
            ok = not others and (
                (len(recomp) == 1 and not decs and not resets) or
                (not recomp and len(decs) == 1 and (not resets or (empty and writes.index(resets[0]) > writes.index(decs[0])))) or
                (not recomp and len(decs) == 0 and len(resets) == 1 and empty))     # released and reset by one store (value if queue else 0)
            ctx.ob(rule, ok)
            if not ok:
                ctx.violation(rule, '%s::Port.run' % fr.module.relpath, 'byte_size writes %s per dequeue' % [e.value for e in writes],
                              'Port.run: on the path [%s] the dequeued packet\'s bytes are released %d times%s' % (
                                  p.cond_str()[:160], len(decs), '' if not (others or resets) else
                                  ' and byte_size is also set to %s' % [e.value for e in others + resets]),
                              where='%s:%d' % (fr.module.relpath, reg.lineno))
    ctx.floor(rule, n, 10, 'put/run paths')


def override_keeps_base_effects(ctx, prop):
    rule = prop + '.S.override_effects'
    n = 0
    for c in ctx.repo.subclasses('Port', strict=True):
        # what put() does on an instance of the subclass, whether the subclass overrides put itself or a private hook of it
        fp = c.lookup('put')
        if fp is None or ctx.repo.is_extracted_base(c):
            continue
        for p in ctx.paths(c, fp, Options()):
            n += 1
            rec = any(e.kind == 'write' and e.target == 'self.packets_received' for e in p.effects)
            stamp = any(e.kind == 'write' and e.target.startswith('@p1.perhop_time[') for e in p.effects)
            noid = any(a == ('none', 'self._element_id') and pol for a, pol, _ in p.lits) or \
                any(a == ('truthy', 'self._element_id') and not pol for a, pol, _ in p.lits)
            ok = rec and (stamp or noid)
            ctx.ob(rule, ok)
            if not ok:
                ctx.violation(rule, '%s::%s.put' % (fp.module.relpath, c.name), 'receive counter %s, hop stamp %s' % (rec, stamp),
                              '%s.put overrides Port.put but drops its common effects on the path [%s] (receive counter: %s, hop stamp: %s)' % (c.name, p.cond_str()[:120], rec, stamp),
                              where=fp.where)
    ctx.floor(rule, n, 4, 'paths of overriding put()')


# ---------------------------------------------------------------------------- schedulers

def _spawned_and_awaited(parents, node, fnode) -> bool:
    """node is the call self.<transmission>(p): it is the argument of <env>.process(...) whose result is yielded, at
    once or through a local that holds nothing else (t = env.process(...); yield t)"""
    p1 = parents.get(node)
    p2 = parents.get(p1)
    if not (isinstance(p1, ast.Call) and isinstance(p1.func, ast.Attribute) and p1.func.attr == 'process'):
        return False
    if isinstance(p2, ast.Yield):
        return True
    if isinstance(p2, (ast.Assign, ast.AnnAssign)):
        tgt = p2.targets[0] if isinstance(p2, ast.Assign) and len(p2.targets) == 1 else getattr(p2, 'target', None)
        if isinstance(tgt, ast.Name):
            stores = [n for n in walk_local(fnode) if isinstance(n, ast.Name) and n.id == tgt.id and isinstance(n.ctx, ast.Store)]
            yields = [n for n in walk_local(fnode) if isinstance(n, ast.Yield) and isinstance(n.value, ast.Name) and n.value.id == tgt.id]
            return len(stores) == 1 and len(yields) >= 1
    return False


def send_packet_awaited(ctx, prop, only=None):
    """every use of send_packet is `yield <env>.process(self.send_packet(p))`"""
    rule = prop + '.W.send_awaited'
    n = 0
    scope = None
    if only:
        # the named classes and the bases they inherit code from (a transmission loop shared in the base)
        scope = set()
        for cn in only:
            try:
                scope |= {b.name for b in ctx.repo.find_class(cn).mro()}
            except Exception:
                scope.add(cn)
    for f in ctx.repo.all_functions():
        if scope is not None and (f.cls is None or f.cls.name not in scope):
            continue
        parents = {}
        for node in ast.walk(f.node):
            for ch in ast.iter_child_nodes(node):
                parents[ch] = node
        for node in walk_local(f.node):
            if isinstance(node, ast.Call) and isinstance(node.func, ast.Attribute) and node.func.attr == 'send_packet':
                n += 1
                p1 = parents.get(node)
                ok = _spawned_and_awaited(parents, node, f.node)
                if not ok and isinstance(p1, ast.YieldFrom) and f.cls is not None and f.name in transmission_methods(f.cls):
                    # delegated inside a transmission method: that method in turn must be spawned and awaited
                    ok = _all_uses_awaited(ctx.repo, f.cls, f.name)
                if not ok and isinstance(p1, ast.Return) and f.cls is not None and f.name.startswith('_') and not f.name.startswith('__'):
                    # a private hook that hands the transmission generator to its caller (`return self.send_packet(p)`):
                    # every use of the hook in turn must be spawned and awaited
                    ok = _all_uses_awaited(ctx.repo, f.cls, f.name)
                ctx.ob(rule, ok)
                construct = '%s::%s' % (f.module.relpath, f.qualname)
                if ok:
                    ctx.sample(rule, construct, 'transmission spawned and awaited: yield %s' % ast.unparse(p1))
                else:
                    ctx.violation(rule, construct, 'send_packet not awaited', '%s starts a transmission without waiting for it to end (overlap / abandoned transmission)' % f.qualname,
                                  where='%s:%d' % (f.module.relpath, node.lineno))
    ctx.floor(rule, n, 1 if only and len(only) == 1 else 3 if only else 6, 'uses of send_packet')


def _all_uses_awaited(repo, cls, meth, _depth=0) -> bool:
    uses = 0
    if _depth > 3:
        return False
    for g in repo.all_functions():
        if g.cls is None or cls not in g.cls.mro() and g.cls not in cls.mro():
            continue
        parents = {}
        for node in ast.walk(g.node):
            for ch in ast.iter_child_nodes(node):
                parents[ch] = node
        for node in walk_local(g.node):
            if isinstance(node, ast.Call) and isinstance(node.func, ast.Attribute) and node.func.attr == meth \
                    and isinstance(node.func.value, ast.Name) and node.func.value.id == 'self':
                uses += 1
                if _spawned_and_awaited(parents, node, g.node):
                    continue
                # handed on by a private hook (`return self.serve(p)`): the hook's uses decide
                if isinstance(parents.get(node), ast.Return) and g.name.startswith('_') and not g.name.startswith('__') \
                        and _all_uses_awaited(repo, g.cls, g.name, _depth + 1):
                    continue
                return False
    return uses > 0


def server_yield_whitelist(ctx, prop):
    """the only suspension points of a scheduler's run(): the dequeue, the awaited send, the wake-up wait
    guarded by total_packets == 0 (tested in the same instant as the wait: no yield in between)"""
    rule = prop + '.C.yield_whitelist'
    n = 0
    for c in ctx.repo.subclasses('Scheduler', strict=True):
        f = c.own('run')
        if f is None or not f.is_generator() or ctx.repo.is_extracted_base(c):
            continue
        paths = ctx.paths(c, f, Options())
        construct = '%s::%s.run' % (f.module.relpath, c.name)
        seen = set()

        def visit(ps):
            nonlocal n
            for p in ps:
                for e in p.effects:
                    if e.kind == 'loop':
                        visit(e.region.paths)
                    if e.kind != 'yield':
                        continue
                    v = e.value
                    kind = None
                    calls = [x for x in p.effects if x.kind == 'call' and x.sym == v]
                    callee = calls[0].target if calls else (v[:-2] if v.endswith('()') else v)
                    callee = re.sub(r'@\d+', '', callee)
                    args = calls[0].args if calls else ()
                    if callee == 'self.packets_available.get':
                        tag = '@%d' % e.epoch if e.epoch else ''
                        want = 'sum(self.queue_count%s.values())' % tag
                        guard = any(a[0] == 'cmp' and a[1] == want and a[2] == 0 and a[3] == '==' and pol for a, pol, _ in p.lits)
                        kind = 'wakeup' if guard else 'wake-up wait not guarded by total_packets == 0 in the same instant'
                    elif callee.endswith('.get') and ('store' in callee):
                        kind = 'dequeue'
                    elif callee.endswith('.process') and args and _is_transmission_arg(c, args[0]):
                        kind = 'send'
                    key = (e.lineno, v, kind)
                    if key in seen:
                        continue
                    seen.add(key)
                    n += 1
                    ok = kind in ('wakeup', 'dequeue', 'send')
                    ctx.ob(rule, ok)
                    if ok:
                        ctx.sample(rule, construct, 'yield %s is the %s' % (callee, kind))
                    else:
                        ctx.violation(rule, construct, 'yield %s' % callee,
                                      '%s.run suspends on `%s` (%s): the server idles with a backlog or is reordered against same-instant arrivals' % (
                                          c.name, callee, kind or 'not a dequeue, an awaited send or the guarded wake-up wait'),
                                      where='%s:%d' % (f.module.relpath, e.lineno))
        visit(paths)
    ctx.floor(rule, n, 14, 'suspension points in scheduler loops')


def sp_rescan(ctx, prop):
    """after every awaited transmission inside the priority scan loop, the scan loop is left before the next dequeue"""
    rule = prop + '.C.rescan'
    c = ctx.repo.find_class('SP')
    f = c.own('run')
    if f is None:
        raise AnalysisError('anchor vanished: SP.run')
    paths = ctx.paths(c, f, Options())
    n = 0
    construct = '%s::SP.run' % f.module.relpath
    # scan order: the iterated list is sorted descending by the priority value in the constructor
    init = c.lookup('__init__')
    order_ok = False
    seen_val = None
    if init is not None:
        pidx = init.params.index('priorities') if 'priorities' in init.params else None
        for p in ctx.paths(c, init, Options()):
            for e in p.effects:
                if e.kind == 'write' and e.target == 'self.priorities':
                    seen_val = e.value
                    order_ok = pidx is not None and e.value.replace(' ', '') in (
                        'sorted(@p%d.items(),key=lambda(1:%%b1[1]),reverse=True)' % pidx,)
    ctx.ob(rule, order_ok)
    if not order_ok:
        ctx.violation(rule, '%s::SP.__init__' % f.module.relpath, 'scan order %s' % seen_val,
                      'SP.__init__: the scan list must be the (flow, priority) pairs sorted by the priority value itself, descending (is: %s)' % seen_val,
                      where=init.where if init else f.where)
    for reg in loops_of(paths):
        if reg.kind != 'for':
            continue
        for p in reg.paths:
            sends = [e for e in p.effects if e.kind == 'call' and e.target.endswith('.process') and e.args and _is_transmission_arg(c, e.args[0])]
            if not sends:
                continue
            n += 1
            ok = p.exit in ('break', 'return')
            ctx.ob(rule, ok)
            if ok:
                ctx.sample(rule, construct, 'after the transmission the scan loop over %s is left (%s)' % (reg.header, p.exit))
            else:
                ctx.violation(rule, construct, 'scan continues after a transmission (exit %s)' % p.exit,
                              'SP.run: after serving a packet on the path [%s] the scan goes on with the next lower class instead of restarting from the highest priority' % p.cond_str()[:200],
                              where='%s:%d' % (f.module.relpath, sends[0].lineno))
    whiles = [r for r in loops_of(paths) if r.kind == 'while']
    ctx.floor(rule, n + len(whiles), 1, 'service paths')


def stamp_keys(ctx, prop):
    """what WFQ/VC push into their PriorityStore: PriorityItem(key, packet); the key is a tuple that ends in an
    arrival number which this very call increments; the payload is the packet itself"""
    rule = prop + '.E.stamp_key'
    n = 0
    for cn in ('WFQ', 'VC'):
        c = ctx.repo.find_class(cn)
        f = c.own('put')
        if f is None:
            raise AnalysisError('anchor vanished: %s.put' % cn)
        for p in ctx.paths(c, f, Options()):
            puts = [e for e in p.effects if e.kind == 'call' and e.target == 'self.store.put']
            if p.exit == 'raise':
                continue
            n += 1
            construct = '%s::%s.put' % (f.module.relpath, cn)
            ok, msg = True, ''
            if len(puts) != 1:
                ok, msg = False, '%d enqueues on one path' % len(puts)
            else:
                arg = puts[0].args[0]
                ctor = [e for e in p.effects if e.kind == 'call' and e.sym == arg]
                if not ctor or ctor[0].target != 'PriorityItem' or len(ctor[0].args) != 2:
                    ok, msg = False, 'the queued item is not PriorityItem(key, packet): %s' % arg[:80]
                else:
                    key, payload = ctor[0].args
                    incs = [e for e in p.effects if e.kind == 'write' and re.fullmatch(r'1 \+ (self\.\w+)', e.value) and e.target == e.value[4:]]
                    if payload != '@p1':
                        ok, msg = False, 'the payload is not the arriving packet: %s' % payload
                    elif not (key.startswith('(') and key.endswith(')')):
                        ok, msg = False, 'the key %s is not a tuple ending in an arrival number' % key
                    else:
                        last = key[1:-1].split(',')[-1].strip()
                        if not any(last == e.value for e in incs):
                            ok, msg = False, 'the last key component %s is not an arrival number incremented by this call (equal stamps leave the heap in arbitrary order)' % last
            ctx.ob(rule, ok)
            if ok:
                ctx.sample(rule, construct, 'queued PriorityItem(%s, packet)' % ctor[0].args[0])
            else:
                ctx.violation(rule, construct, msg, '%s.put: %s' % (cn, msg), where='%s:%d' % (f.module.relpath, puts[0].lineno if puts else f.node.lineno))
    ctx.floor(rule, n, 3, 'put paths of WFQ/VC')


# ---------------------------------------------------------------------------- TCP

def ack_depends_on_buffer_only(ctx, prop):
    rule = prop + '.F.ack_flow'
    c = ctx.repo.find_class('TCPSink')
    f = c.own('put')
    if f is None:
        raise AnalysisError('anchor vanished: TCPSink.put')
    n = 0
    for p in ctx.paths(c, f, Options()):
        for e in p.effects:
            if e.kind == 'write' and e.target.endswith('.ack') and e.target.startswith('@Packet('):
                n += 1
                ok = not _mentions(e.value, '@p1') and '@p1.' not in e.value
                ctx.ob(rule, ok)
                if ok:
                    ctx.sample(rule, '%s::TCPSink.put' % f.module.relpath, 'ACK number := %s (receive buffer and constants only)' % e.value)
                else:
                    ctx.violation(rule, '%s::TCPSink.put' % f.module.relpath, 'ack := %s' % e.value,
                                  'TCPSink.put: the ACK number %s depends on the arriving segment itself; a cumulative ACK is a function of the set received' % e.value,
                                  where='%s:%d' % (f.module.relpath, e.lineno))
    ctx.floor(rule, n, 2, 'ACK assignments')


def element_id_defined(ctx, prop):
    """Hub.put (and the hop stamps) read `endpoint.element_id` of whatever device they are given; the property
    getter reads `self._element_id`.  Every concrete Device class must therefore have that attribute on every
    instance: a class-level default somewhere in its MRO, or a store to element_id / _element_id in the __init__ that
    actually runs for it."""
    rule = prop + '.S.element_id_defined'
    dev = ctx.repo.find_class('Device')
    n = 0
    for c in ctx.repo.all_classes():
        if c is dev or dev not in c.mro() or not c.module.name.startswith('onl.'):
            continue
        if any(isinstance(d, ast.Name) and d.id == 'ABC' for d in c.node.bases) and not c.own('__init__'):
            continue
        n += 1
        has_default = c.lookup_attr('_element_id') is not None
        init = c.lookup('__init__')
        stores = False
        seen = set()
        while init is not None and init.node not in seen and not stores:
            seen.add(init.node)
            for node in walk_local(init.node):
                if isinstance(node, ast.Attribute) and isinstance(node.ctx, ast.Store) and node.attr in ('element_id', '_element_id') \
                        and isinstance(node.value, ast.Name) and node.value.id == 'self':
                    stores = True
            # follow super().__init__(...)
            nxt = None
            for node in walk_local(init.node):
                if isinstance(node, ast.Call) and isinstance(node.func, ast.Attribute) and node.func.attr == '__init__' \
                        and isinstance(node.func.value, ast.Call) and isinstance(node.func.value.func, ast.Name) and node.func.value.func.id == 'super' \
                        and init.cls is not None:
                    nxt = c.lookup_after(init.cls, '__init__')
            init = nxt
        ok = has_default or stores
        ctx.ob(rule, ok)
        construct = '%s::%s' % (c.module.relpath, c.name)
        if ok:
            ctx.sample(rule, construct, 'element_id is defined on every instance (%s)' % ('class default' if has_default else 'set by the constructor'))
        else:
            ctx.violation(rule, construct, 'element_id undefined',
                          '%s: no class default and no constructor on its path sets element_id - reading it (Hub.put compares it with the '
                          'sender of every packet) raises AttributeError' % c.name, where='%s:%d' % (c.module.relpath, c.node.lineno))
    ctx.floor(rule, n, 10, 'device classes')


def ack_offset_constant(ctx, prop):
    """the sink marks an ACK by adding an offset to the flow id, the sender recognises it by the same offset, the FIB
    generator installs the reverse entries under it: one value in all three classes.  Looked for in every method of
    the class (a literal may sit in an extracted helper) and through module-level constants."""
    rule = prop + '.W.ack_offset'
    classes = ['TCPSink', 'TCPPacketGenerator', 'FatTree']
    per_class = {}
    for cn in classes:
        c = ctx.repo.find_class(cn)
        found = {}
        for m, f in c.methods.items():
            ctx.touch(f)
            for node in walk_local(f.node):
                v = None
                if isinstance(node, ast.Constant) and isinstance(node.value, int) and not isinstance(node.value, bool):
                    v = node.value
                elif isinstance(node, ast.Name) and isinstance(node.ctx, ast.Load):
                    g = f.module.globals.get(node.id)
                    if isinstance(g, ast.Constant) and isinstance(g.value, int) and not isinstance(g.value, bool):
                        v = g.value
                if v is not None and v >= 1000:
                    found.setdefault(v, []).append('%s.%s' % (cn, m))
        per_class[cn] = found
    vals = {}
    for cn, found in per_class.items():
        for v, where in found.items():
            vals.setdefault(v, []).extend(where)
    missing = [cn for cn in classes if not per_class[cn]]
    if missing:
        raise AnalysisError('%s: no ACK-class offset found in %s any more' % (rule, ', '.join(missing)))
    ok = len(vals) == 1
    ctx.ob(rule, ok, 3)
    if ok:
        ctx.sample(rule, 'tcp_sink.py, tcp_generator.py, fattree.py', 'ACK class offset is the single value %s at %s' % (list(vals)[0], list(vals.values())[0]))
    else:
        ctx.violation(rule, 'onl/packet/tcp_sink.py::TCPSink', 'ACK class offsets %s' % sorted(vals),
                      'the ACK flow-class offset differs between the sink, the sender and the FIB generator: %s' % vals)


def timer_args_shape(ctx, prop):
    """Timer.run splats self.args: the constructor must normalise a scalar, or every call site must pass a list/tuple"""
    rule = prop + '.E.timer_args'
    c = ctx.repo.find_class('Timer')
    init = c.own('__init__')
    run = c.own('run')
    if init is None or run is None:
        raise AnalysisError('anchor vanished: Timer')
    splats = any(isinstance(n, ast.Starred) and term(n.value) == 'self.args' for n in walk_local(run.node))
    normalises = True
    pidx = init.params.index('args') if 'args' in init.params else None
    if pidx is None:
        raise AnalysisError('anchor vanished: Timer.__init__(args=)')
    psym = '@p%d' % pidx
    n = 0
    for p in ctx.paths(c, init, Options()):
        for e in p.effects:
            if e.kind == 'write' and e.target == 'self.args':
                n += 1
                if e.value == psym:
                    # stored as is: must be under isinstance(args, (list, tuple))
                    guard = any(a[0] == 'bit' and a[1].startswith('isinstance(%s,' % psym) and pol for a, pol, _ in p.lits)
                    if not guard:
                        normalises = False
    sites_ok = True
    nsites = 0
    bad_site = ''
    for f in ctx.repo.all_functions():
        for node in walk_local(f.node):
            if isinstance(node, ast.Call) and isinstance(node.func, ast.Name) and node.func.id == 'Timer':
                for k in node.keywords:
                    if k.arg == 'args':
                        nsites += 1
                        if not isinstance(k.value, (ast.List, ast.Tuple)):
                            sites_ok = False
                            bad_site = '%s:%d %s passes args=%s' % (f.module.relpath, node.lineno, f.qualname, ast.unparse(k.value))
    ok = (not splats) or normalises or sites_ok
    ctx.ob(rule, ok)
    if ok:
        ctx.sample(rule, '%s::Timer.__init__' % init.module.relpath, 'splat in run: %s; constructor normalises scalars: %s; all %d call sites pass sequences: %s' % (splats, normalises, nsites, sites_ok))
    else:
        ctx.violation(rule, '%s::Timer.__init__' % init.module.relpath, 'scalar args reach *self.args',
                      'Timer.run calls callback(*self.args) but a scalar can reach self.args unchanged (%s): TypeError at the first expiry' % bad_site,
                      where=init.where)
    ctx.floor(rule, n, 1, 'writes of Timer.args')


def network_keys_guarded(ctx, prop):
    """a sequence number taken from an ACK that subscripts sent_packets / timers must be guarded by a membership test"""
    rule = prop + '.F.net_keys'
    c = ctx.repo.find_class('TCPPacketGenerator')
    f = c.own('put')
    if f is None:
        raise AnalysisError('anchor vanished: TCPPacketGenerator.put')
    n = 0
    for p in ctx.paths(c, f, Options()):
        text = [e.key() for e in p.effects] + [p.cond_str()]
        for tbl in ('self.sent_packets', 'self.timers'):
            for m in set(re.findall(re.escape(tbl) + r'\[(@p1\.[\w.]+)\]', ' ; '.join(text))):
                n += 1
                guard = any(a[0] == 'bit' and a[1] in ('%s in self.sent_packets' % m, '%s in self.timers' % m) and pol for a, pol, _ in p.lits)
                ctx.ob(rule, guard)
                if guard:
                    ctx.sample(rule, '%s::TCPPacketGenerator.put' % f.module.relpath, '%s[%s] is guarded by a membership test' % (tbl, m))
                else:
                    ctx.violation(rule, '%s::TCPPacketGenerator.put' % f.module.relpath, '%s[%s] unguarded' % (tbl, m),
                                  'TCPPacketGenerator.put: %s[%s] is read with a key supplied by the network on the path [%s] without a membership test (KeyError on duplicate ACKs for data not in flight)' % (tbl, m, p.cond_str()[:160]),
                                  where=f.where)
    ctx.floor(rule, n, 2, 'network-keyed subscripts')


def cwnd_writers(ctx, prop):
    hooks = {'CongestionControl.__init__': 'initial window', 'CongestionControl.timer_expired': 'timeout',
             'CongestionControl.dupack_over': 'deflate', 'CongestionControl.consecutive_dupacks_received': 'fast retransmit',
             'CongestionControl.more_dupacks_received': 'inflate', 'TCPReno.ack_received': 'growth',
             'TCPCubic.ack_received': 'growth', 'TCPCubic.timer_expired': 'timeout'}
    whomay.check_writers(ctx, prop + '.W.cwnd', 'cwnd', hooks, 7, 'cwnd changes only in the congestion-control hooks')
    whomay.check_writers(ctx, prop + '.W.ssthresh', 'ssthresh', {
        'CongestionControl.__init__': 'initial', 'CongestionControl.consecutive_dupacks_received': 'halve on loss'}, 2,
        'ssthresh changes only on the third duplicate ACK')


# ---------------------------------------------------------------------------- C18 / C19

def copy_aliasing(ctx, prop):
    """every member that Packet.__init__ initialises with a mutable display must be re-created by Packet.__copy__,
    because the splitters hand copy(packet) to their other outputs and elements write these members downstream"""
    rule = prop + '.F.copy_alias'
    c = ctx.repo.find_class('Packet')
    init = c.own('__init__')
    if init is None:
        raise AnalysisError('anchor vanished: Packet.__init__')
    mutable = []
    init_nodes = [n for g in c.methods.values() if g.name == '__init__' or whomay.root_callers(ctx.repo, g, stop=('Packet.__init__',)) == {'Packet.__init__'}
                  for n in walk_local(g.node)]
    for node in init_nodes:
        if isinstance(node, (ast.Assign, ast.AnnAssign)):
            v = node.value
            t = node.targets[0] if isinstance(node, ast.Assign) else node.target
            if isinstance(t, ast.Attribute) and isinstance(t.value, ast.Name) and t.value.id == 'self':
                if isinstance(v, (ast.Dict, ast.List, ast.Set)) or (isinstance(v, ast.Call) and isinstance(v.func, ast.Name) and v.func.id in ('dict', 'list', 'set', 'dd', 'defaultdict')):
                    mutable.append(t.attr)
    cp = c.own('__copy__')
    uses_copy = 0
    for f in ctx.repo.all_functions():
        if f.cls is not None and f.cls.name in ('Splitter', 'NSplitter'):
            for node in walk_local(f.node):
                if isinstance(node, ast.Call) and isinstance(node.func, ast.Name) and node.func.id in ('copy', 'deepcopy'):
                    uses_copy += 1
                    imp = f.module.imports.get(node.func.id)
                    ok = imp is not None and imp[0] == 'copy'
                    ctx.ob(rule, ok)
                    if not ok:
                        ctx.violation(rule, '%s::%s' % (f.module.relpath, f.qualname), 'copy is not copy.copy', 'splitter copy function is %r' % (imp,), where=f.where)
    ctx.floor(rule, uses_copy, 2, 'copy() sites in the splitters')
    fresh = set()
    if cp is not None:
        for node in walk_local(cp.node):
            if isinstance(node, ast.Assign):
                t = node.targets[0]
                if isinstance(t, ast.Attribute) and isinstance(node.value, ast.Call) and isinstance(node.value.func, ast.Name) \
                        and node.value.func.id in ('dict', 'list', 'set', 'copy', 'deepcopy') and node.value.args:
                    src = node.value.args[0]
                    if isinstance(src, ast.Attribute) and src.attr == t.attr and term(src.value) == 'self' and term(t.value) != 'self':
                        fresh.add(t.attr)
    if cp is not None:
        # the same on the path table (sees through a loop over a tuple of field names with setattr / getattr)
        per_path = []
        for p_ in ctx.paths(c, cp, Options()):
            got = set()
            for e in p_.effects:
                if e.kind == 'write' and e.target and not e.target.startswith('self.') and '.' in e.target:
                    attr = e.target.rsplit('.', 1)[1]
                    if re.match(r'^(dict|list|set|copy|deepcopy|copy\.copy|copy\.deepcopy)\(self\.%s(\$|@|\)|,)' % re.escape(attr), e.value or ''):
                        got.add(attr)
            per_path.append(got)
        if per_path:
            fresh |= set.intersection(*per_path)
    for m in mutable:
        ok = m in fresh
        ctx.ob(rule, ok)
        if ok:
            ctx.sample(rule, '%s::Packet.__copy__' % c.module.relpath, 'mutable member %s is re-created for the copy' % m)
        else:
            ctx.violation(rule, '%s::Packet' % c.module.relpath, 'copy shares .%s' % m,
                          'copy(packet) shares the mutable member .%s with the original (no fresh copy in Packet.__copy__): a header change on a splitter copy shows in the original' % m,
                          where=(cp or init).where)
    ctx.floor(rule, len(mutable), 2, 'mutable packet members')


def timer_no_self_interrupt(ctx, prop):
    """restart() is reachable from the timer's own process (Timer.run -> callback -> ... -> Timer.restart), and the
    kernel refuses self-interrupts: every path of restart that interrupts must have tested that the sleeper is not
    the active process"""
    rule = prop + '.C.self_interrupt'
    c = ctx.repo.find_class('Timer')
    f = c.own('restart')
    if f is None:
        raise AnalysisError('anchor vanished: Timer.restart')
    # call-graph fact: is restart reachable from a timer callback?  (callback edge: Timer(..., timeout_callback=X))
    reach = []
    for g in ctx.repo.all_functions():
        for node in walk_local(g.node):
            if isinstance(node, ast.Call) and isinstance(node.func, ast.Name) and node.func.id == 'Timer':
                for k in node.keywords:
                    if k.arg == 'timeout_callback' and isinstance(k.value, ast.Attribute) and term(k.value.value) == 'self' and g.cls is not None:
                        cb = g.cls.lookup(k.value.attr)
                        if cb is not None:
                            for m in walk_local(cb.node):
                                if isinstance(m, ast.Call) and isinstance(m.func, ast.Attribute) and m.func.attr == 'restart':
                                    reach.append('%s -> Timer.run -> %s -> Timer.restart' % (g.qualname, cb.qualname))
    n = 0
    for p in ctx.paths(c, f, Options()):
        ints = [e for e in p.effects if e.kind == 'call' and e.target.endswith('.interrupt')]
        if not ints:
            continue
        n += 1
        guard = any(a[0] == 'bit' and 'self.proc' in a[1] and 'active_proc' in a[1] and ' is ' in a[1] and not pol for a, pol, _ in p.lits)
        ctx.ob(rule, guard)
        if guard:
            ctx.sample(rule, '%s::Timer.restart' % f.module.relpath, 'interrupt only when the sleeper is not the active process; restart reachable from own callback via %s' % (reach[:1] or ['(user callbacks)']))
        else:
            ctx.violation(rule, '%s::Timer.restart' % f.module.relpath, 'interrupt without active-process test',
                          'Timer.restart interrupts its sleeper on the path [%s] without testing that it is not the running process; it is called from the timer\'s own callback (%s) and the kernel refuses self-interrupts' % (p.cond_str()[:160], '; '.join(reach[:2]) or 'user callbacks'),
                          where='%s:%d' % (f.module.relpath, ints[0].lineno))
    ctx.floor(rule, n, 1, 'interrupting paths of Timer.restart')


def interrupt_guards_imply_precondition(ctx, prop):
    """Process.interrupt requires an untriggered process: the guard in front of Timer's interrupt must imply it
    (is_alive / not triggered - `not processed` does not)"""
    rule = prop + '.C.interrupt_guard'
    c = ctx.repo.find_class('Timer')
    n = 0
    for mname, f in c.methods.items():
        for p in ctx.paths(c, f, Options()):
            ints = [e for e in p.effects if e.kind == 'call' and e.target.endswith('.interrupt')]
            if not ints:
                continue
            n += 1
            recv = ints[0].target[:-len('.interrupt')]
            ok = False
            for a, pol, _ in p.lits:
                s = a[1] if len(a) > 1 and isinstance(a[1], str) else ''
                if recv in s and 'is_alive' in s and pol:
                    ok = True
                if recv in s and 'triggered' in s and not pol:
                    ok = True
                if a[0] == 'bit' and 'PENDING' in s and (recv + '._value') in s and pol:
                    ok = True
            ctx.ob(rule, ok)
            if ok:
                ctx.sample(rule, '%s::Timer.%s' % (f.module.relpath, mname), 'interrupt of %s guarded by liveness' % recv)
            else:
                ctx.violation(rule, '%s::Timer.%s' % (f.module.relpath, mname), 'guard does not imply "not triggered"',
                              'Timer.%s interrupts %s on the path [%s]: the guard does not imply that the process has not terminated (RuntimeError in the expiry instant)' % (mname, recv, p.cond_str()[:160]),
                              where='%s:%d' % (f.module.relpath, ints[0].lineno))
    ctx.floor(rule, n, 1, 'interrupt sites in Timer')


# ---------------------------------------------------------------------------- transmission helpers

def transmission_methods(cls) -> set:
    """send_packet and every generator method that delegates to it with `yield from self.send_packet(..)`
    (directly or through another such method): spawning one of them is starting a transmission"""
    out = {'send_packet'}
    changed = True
    while changed:
        changed = False
        for c in cls.mro():
            for m, f in c.methods.items():
                if m in out or not f.is_generator():
                    continue
                for n in walk_local(f.node):
                    if isinstance(n, ast.YieldFrom) and isinstance(n.value, ast.Call) and isinstance(n.value.func, ast.Attribute) \
                            and isinstance(n.value.func.value, ast.Name) and n.value.func.value.id == 'self' and n.value.func.attr in out:
                        out.add(m)
                        changed = True
    return out


def _is_transmission_arg(cls, arg: str) -> bool:
    return any(arg.startswith('self.%s(' % m) for m in transmission_methods(cls))


def departure_bookkeeping_atomic(ctx, prop, only=None):
    """State that put() consults (backlog, active set, virtual time, credit) must be brought up to date with a
    departure in the very step in which the transmission ends.  If the server loop updates it only after it has been
    resumed (one event later), an arrival in the instant of the departure sees stale state: a class still 'active'
    after the scheduler emptied, credit kept after the queue emptied."""
    rule = prop + '.C.departure_atomic'
    n = 0
    for c in ctx.repo.subclasses('Scheduler', strict=True):
        if only and c.name not in only:
            continue
        run = c.lookup('run')
        put = c.lookup('put')
        if run is None or put is None or not run.is_generator() or elements_is_abstract(run.node):
            continue
        # fields put() reads
        reads = set()
        for p in ctx.paths(c, put, Options(), primary=False):
            text = p.cond_str() + ' ; ' + ' ; '.join(e.key() for e in p.effects)
            reads |= set(re.findall(r'self\.(\w+)', text))
        reads -= {'env', 'rate', 'debug', 'flow2class', 'weights', 'vticks', 'out', '_out', 'stores', 'store',
                  'packets_available', 'packets_received', 'priorities', 'quantum', 'MIN_QUANTUM'}
        late = {}
        for reg in loops_of(ctx.paths(c, run, Options(), primary=False)):
            for p in reg.paths:
                seen_tx = False
                for e in p.effects:
                    if e.kind == 'call' and e.target.endswith('.process') and e.args and _is_transmission_arg(c, e.args[0]):
                        seen_tx = True
                    elif seen_tx and e.kind in ('write', 'del') and e.target.startswith('self.'):
                        fld = e.target.split('.')[1].split('[')[0]
                        if fld in reads:
                            late.setdefault(fld, e.lineno)
                    elif seen_tx and e.kind == 'call' and e.target.startswith('self.') and e.target.split('.')[-1] in ('add', 'remove', 'discard', 'append', 'pop', 'clear'):
                        fld = e.target.split('.')[1]
                        if fld in reads:
                            late.setdefault(fld, e.lineno)
        n += 1
        ok = not late
        ctx.ob(rule, ok)
        construct = '%s::%s.run' % (run.module.relpath, c.name)
        if ok:
            ctx.sample(rule, construct, 'nothing that put() reads (%s) is updated by the server loop after it resumes from a transmission' % sorted(reads)[:8])
        else:
            ctx.violation(rule, construct, 'late update of %s' % sorted(late),
                          '%s.run updates %s only after the server process has been resumed from the transmission; put() reads them, so an arrival in the instant of a departure sees the state of before the departure' % (c.name, sorted(late)),
                          where='%s:%d' % (run.module.relpath, min(late.values())))
    ctx.floor(rule, n, 1 if only else 5, 'scheduler classes')


def elements_is_abstract(fn) -> bool:
    return _is_abstract(fn)


def class_constants(ctx, prop, table):
    """class-level constants the reference tables refer to symbolically: {(Class, NAME): canonical value}"""
    rule = prop + '.S.constants'
    for (cn, nm), want in table.items():
        c = ctx.repo.find_class(cn)
        r = c.lookup_attr(nm)
        got = term(r[1]) if r is not None else None
        ok = got == want
        ctx.ob(rule, ok)
        construct = '%s::%s.%s' % (c.module.relpath, cn, nm)
        if ok:
            ctx.sample(rule, construct, '%s.%s == %s' % (cn, nm, want))
        else:
            ctx.violation(rule, construct, '%s = %s' % (nm, got), '%s.%s is %s, the property requires %s' % (cn, nm, got, want),
                          where='%s:%d' % (c.module.relpath, c.node.lineno))
