"""Reference tables for onl/netdev, onl/packet (generator, sinks, packet) and
onl/device: C08-C11, C18."""
from ..compare import View

NVIEW = View(ignore_calls=('print', 'dprint'))

SPECS = {}


def spec(cls, meth, what='', view=None, opts=None, ctx=None):
    def deco(src):
        SPECS[(cls, meth)] = dict(cls=cls, meth=meth, src=src, what=what, view=view, opts=opts, ctx=ctx)
        return src
    return deco


STAMP = '''
    if self.element_id is None:
        pass
    elif self.element_id:
        packet.perhop_time[self.element_id] = self.env.now
    else:
        DONTCARE('@p1.perhop_time')          # an id that is falsy but not None: not constrained
'''

# ------------------------------------------------------------------ device/base.py

spec('Device', 'element_id')('''
def element_id(self):
    return self._element_id
''')
spec('Device', 'element_id.setter')('''
def element_id(self, val):
    self._element_id = val
''')
spec('OutMixIn', 'out')('''
def out(self):
    return self._out
''')
spec('OutMixIn', 'out.setter')('''
def out(self, val):
    self._out = val
''')

# ------------------------------------------------------------------ packet.py

spec('Packet', '__init__', what='identity fields from the arguments; fresh header dictionaries per packet')('''
def __init__(self, time, size, packet_id, realtime=0, src="source", dst="destination", flow_id=0, payload=None):
    self.time = time
    self.size = size
    self.packet_id = packet_id
    self.realtime = realtime
    self.src = src
    self.dst = dst
    self.flow_id = flow_id
    self.payload = payload
    self.color = ''
    self.priorities = {}
    self.ack = 0
    self.current_time = 0
    self.perhop_time = {}
''')

spec('Packet', '__copy__', what='a copy shares no mutable header state with the original')('''
def __copy__(self):
    new = type(self).__new__(type(self))
    new.__dict__.update(self.__dict__)
    new.priorities = dict(self.priorities)
    new.perhop_time = dict(self.perhop_time)
    return new
''')

# ------------------------------------------------------------------ port.py

spec('Port', '__init__', what='empty unbounded FIFO store, zero counters, server process started')('''
def __init__(self, env, rate, qlimit, limit_bytes, element_id, debug=False):
    self.env = env
    self.store = Store(env)
    self.rate = rate
    self.qlimit = qlimit
    self.limit_bytes = limit_bytes
    self.element_id = element_id
    self.debug = debug
    self.byte_size = 0
    self.packets_received = 0
    self.packets_dropped = 0
    self.busy = 0
    self.busy_packet_size = 0
    self.action = env.process(self.run(env))
''')

spec('Port', 'put', what='count; stamp under the element id; never drop without a limit; byte mode: drop iff held + size > '
                         'qlimit; packet mode: drop iff qlimit-1 already waiting; accept = account bytes + enqueue')('''
def put(self, packet):
    self.packets_received += 1
''' + STAMP + '''
    if self.qlimit is None:
        self.byte_size = self.byte_size + packet.size
        self.store.put(packet)
    elif self.limit_bytes:
        if self.byte_size + packet.size > self.qlimit:
            self.packets_dropped += 1
        else:
            self.byte_size = self.byte_size + packet.size
            self.store.put(packet)
    else:
        if len(self.store.items) >= self.qlimit - 1:
            self.packets_dropped += 1
        else:
            self.byte_size = self.byte_size + packet.size
            self.store.put(packet)
''')

spec('Port', 'run', what='one packet at a time: dequeue, hold 8*size/rate when rate > 0, then the advertised occupancy is '
                         'recomputed from the packets still waiting (no rounding residue of departed packets, on every path), forward it once')('''
def run(self, env):
    while True:
        packet = yield self.store.get()
        self.busy = 1
        self.busy_packet_size = packet.size
        if self.rate > 0:
            yield env.timeout(packet.size * 8 / self.rate)
        self.byte_size = math.fsum(p.size for p in self.store.items)
        if self.out:
            self.out.put(packet)
        self.busy = 0
        self.busy_packet_size = 0
''')

# ------------------------------------------------------------------ red_port.py

spec('REDPort', '__init__')('''
def __init__(self, env, rate, max_threshold, min_threshold, max_probability, element_id, qlimit, weight_factor=9,
             limit_bytes=False, debug=False):
    super().__init__(env, rate, qlimit, limit_bytes, element_id, debug)
    self.max_probability = max_probability
    self.max_threshold = max_threshold
    self.min_threshold = min_threshold
    self.weight_factor = weight_factor
    self.average_queue_size = 0
''')

spec('REDPort', 'put', what='EWMA with gain 2^-weight_factor; avg >= qlimit: drop; >= max: drop iff u <= max_p; >= min: '
                            'drop iff u <= (avg-min)/(max-min)*max_p; below: accept; one draw per decision; stamp like Port')('''
def put(self, packet):
    self.packets_received += 1
''' + STAMP + '''
    if self.limit_bytes:
        cur = self.byte_size
    else:
        cur = len(self.store.items)
    alpha = 2 ** (-self.weight_factor)
    self.average_queue_size = self.average_queue_size * (1 - alpha) + cur * alpha
    avg = self.average_queue_size
    if self.qlimit is not None and avg >= self.qlimit:
        drop = True
    elif avg >= self.max_threshold:
        drop = random.uniform(0, 1) <= self.max_probability
    elif avg >= self.min_threshold:
        drop = random.uniform(0, 1) <= (avg - self.min_threshold) / (self.max_threshold - self.min_threshold) * self.max_probability
    else:
        drop = False
    if drop:
        self.packets_dropped += 1
    else:
        self.byte_size += packet.size
        self.store.put(packet)
''')

# ------------------------------------------------------------------ port_monitor.py

spec('PortMonitor', '__init__')('''
def __init__(self, env, port, dist, pkt_in_service_included=False):
    self.env = env
    self.port = port
    self.dist = dist
    self._sizes = []
    self._sizes_byte = []
    self.pkt_in_service_included = pkt_in_service_included
''')

spec('PortMonitor', 'run', what='the packet in service is the one the port\'s server holds: flagged busy, or handed over in this '
                                'instant (server\'s store request granted, server not yet resumed), or head of an idle port '
                                'whose request is still pending (then it is not waiting); bytes: byte_size (minus that packet '
                                'when excluded); packets: waiting (+ 1 when included)')('''
def run(self):
    while True:
        yield self.env.timeout(self.dist())
        waiting = len(self.port.store.items)
        busy = self.port.busy
        busy_packet_size = self.port.busy_packet_size
        request = self.port.action.target
        if not busy and isinstance(request, StoreGet):
            if request.triggered:
                busy = 1
                busy_packet_size = request.value.size
            elif waiting:
                busy = 1
                busy_packet_size = self.port.store.items[0].size
                waiting -= 1
        if self.pkt_in_service_included:
            total_byte = self.port.byte_size
            total = waiting + busy
        else:
            total_byte = self.port.byte_size - busy_packet_size
            total = waiting
        self._sizes.append(total)
        self._sizes_byte.append(total_byte)
''')

spec('PortMonitor', 'sizes')('''
def sizes(self):
    return self._sizes
''')
spec('PortMonitor', 'sizes_byte')('''
def sizes_byte(self):
    return self._sizes_byte
''')

# ------------------------------------------------------------------ wire.py

spec('Wire', '__init__')('''
def __init__(self, env, delay_dist, loss_rate=None, wire_id=0, debug=False):
    self.env = env
    self.store = Store(env)
    self.delay_dist = delay_dist
    self.loss_rate = loss_rate
    self.wire_id = wire_id
    self.debug = debug
    self.packets_rec = 0
    self.action = env.process(self.run(env))
''')

WIRE_VIEW = View(ignore_calls=('print', 'dprint'), ignore_targets=('*.current_time',))

spec('Wire', 'put', view=WIRE_VIEW,
     what='the entry instant is queued together with the packet (an object that re-enters while an earlier entry is '
          'still inside - a retransmission, a hub branch - must not overwrite it), one enqueue per entry')('''
def put(self, packet):
    self.packets_rec += 1
    self.store.put((self.env.now, packet))
''')

spec('Wire', 'run', view=WIRE_VIEW,
     what='loss decided first (one draw, only when a rate is set); a kept packet draws one delay, waits '
          'delay - time since *this* entry iff positive, is forwarded once; a lost packet delays nobody')('''
def run(self, env):
    while True:
        entered, packet = yield self.store.get()
        if not self.loss_rate or random.uniform(0, 1) >= self.loss_rate:
            queued_time = self.env.now - entered
            delay = self.delay_dist()
            if delay - queued_time > 0:
                yield env.timeout(delay - queued_time)
            assert self.out
            self.out.put(packet)
''')

spec('Cable', '__init__', what='two wires with the same delay law and the same loss rate, distinct ids')('''
def __init__(self, env, delay_dist, loss_rate=None, wire_id=0, debug=False):
    self.wire1 = Wire(env, delay_dist, loss_rate, wire_id, debug)
    self.wire2 = Wire(env, delay_dist, loss_rate, wire_id + 1, debug)
''')

spec('Cable', 'set_endpoints', what='dev1 -> wire1 -> dev2 and dev2 -> wire2 -> dev1')('''
def set_endpoints(self, dev1, dev2):
    dev1.out = self.wire1
    self.wire1.out = dev2
    dev2.out = self.wire2
    self.wire2.out = dev1
''')

# ------------------------------------------------------------------ token_bucket.py

spec('TokenBucket', '__init__', what='bucket initially full: level = size, refill origin = the instant of creation')('''
def __init__(self, env, rate, bucket_size, peak=None, debug=False):
    self.env = env
    self.store = Store(env)
    self.rate = rate
    self.out = None
    self.packets_received = 0
    self.packets_sent = 0
    self.bucket_size = bucket_size
    self.peak = peak
    self.current_bucket = bucket_size
    self.update_time = env.now
    self.debug = debug
    self.busy = 0
    self.action = env.process(self.run(env))
''')

spec('TokenBucket', 'put')('''
def put(self, packet):
    self.packets_received += 1
    self.store.put(packet)
''')

spec('TokenBucket', 'run', what='refill min(B, level + rate*dt/8); short: wait exactly (size-level)*8/rate, level := 0; '
                                'else debit; update_time = debit instant; peak spacing 8*size/peak before the forward')('''
def run(self, env):
    while True:
        packet = yield self.store.get()
        t0 = env.now
        level = min(self.bucket_size, self.current_bucket + self.rate * (t0 - self.update_time) / 8)
        self.current_bucket = level
        self.update_time = t0
        if packet.size > level:
            yield env.timeout((packet.size - level) * 8 / self.rate)
            self.current_bucket = 0
            self.update_time = env.now
        else:
            self.current_bucket = level - packet.size
            self.update_time = env.now
        if not self.out:
            raise ValueError()
        if self.peak:
            yield env.timeout(packet.size * 8 / self.peak)
        self.out.put(packet)
        self.packets_sent += 1
''')

# ------------------------------------------------------------------ two_level_token_bucket.py

spec('TwoRateTokenBucket', '__init__', what='both buckets initially full')('''
def __init__(self, env, cir, cbs, pir=None, pbs=None, debug=False):
    self.store = Store(env)
    self.env = env
    self.out = None
    self.cir = cir
    self.cbs = cbs
    self.pir = pir
    self.pbs = pbs
    self.packets_received = 0
    self.packets_sent = 0
    self.current_bucket_commit = cbs
    self.current_bucket_peak = pbs
    self.update_time = env.now
    self.debug = debug
    self.busy = 0
    self.action = env.process(self.run(env))
''')

spec('TwoRateTokenBucket', 'put')('''
def put(self, packet):
    self.packets_received += 1
    self.store.put(packet)
''')

spec('TwoRateTokenBucket', 'run', what='both buckets refilled with their own rate and cap; PIR: short of peak -> wait for '
                                       'peak tokens, red; short of commit only -> yellow; else both debited, green; no PIR: '
                                       'short of commit -> wait on CIR, yellow; else debit, green')('''
def run(self, env):
    while True:
        packet = yield self.store.get()
        t0 = env.now
        commit = min(self.cbs, self.current_bucket_commit + self.cir * (t0 - self.update_time) / 8)
        self.current_bucket_commit = commit
        if self.pir:
            assert self.pbs is not None
            peak = min(self.pbs, self.current_bucket_peak + self.pir * (t0 - self.update_time) / 8)
            self.current_bucket_peak = peak
        self.update_time = t0
        if self.pir:
            if packet.size > peak:
                yield env.timeout((packet.size - peak) * 8 / self.pir)
                self.current_bucket_peak = 0
                self.current_bucket_commit = min(self.cbs, commit + self.cir * (env.now - t0) / 8)
                packet.color = "red"
                self.update_time = env.now
            elif packet.size > commit:
                self.current_bucket_peak = peak - packet.size
                self.current_bucket_commit = 0
                packet.color = "yellow"
                self.update_time = env.now
            else:
                self.current_bucket_commit = commit - packet.size
                self.current_bucket_peak = peak - packet.size
                packet.color = "green"
                self.update_time = env.now
        else:
            if packet.size > commit:
                yield env.timeout((packet.size - commit) * 8 / self.cir)
                self.current_bucket_commit = 0
                packet.color = "yellow"
                self.update_time = env.now
            else:
                self.current_bucket_commit = commit - packet.size
                packet.color = "green"
                self.update_time = env.now
        assert self.out
        self.out.put(packet)
        self.packets_sent += 1
''')

# ------------------------------------------------------------------ dist_generator.py / sink.py

spec('DistPacketGenerator', '__init__')('''
def __init__(self, env, element_id, arrival_dist, size_dist, initial_delay=0, finish=float("inf"), flow_id=0,
             rec_flow=False, debug=False):
    self.element_id = element_id
    self.env = env
    self.arrival_dist = arrival_dist
    self.size_dist = size_dist
    self.initial_delay = initial_delay
    self.finish = finish
    self.out = None
    self.packets_send = 0
    self.action = env.process(self.run(env))
    self.flow_id = flow_id
    self.rec_flow = rec_flow
    self.time_rec = []
    self.size_rec = []
    self.debug = debug
''')

spec('DistPacketGenerator', 'run', what='initial delay first; per packet one inter-arrival draw, id = running count from 1, '
                                        'one size draw, created now, own source and flow, one forward')('''
def run(self, env):
    yield env.timeout(self.initial_delay)
    while env.now < self.finish:
        yield env.timeout(self.arrival_dist())
        self.packets_send += 1
        packet = Packet(env.now, self.size_dist(), self.packets_send, src=self.element_id, flow_id=self.flow_id)
        if self.rec_flow:
            self.time_rec.append(packet.time)
            self.size_rec.append(packet.size)
        if not self.out:
            raise Exception()
        self.out.put(packet)
''')

spec('PacketSink', '__init__')('''
def __init__(self, env, rec_arrivals=True, absolute_arrivals=True, rec_waits=True, rec_flow_ids=True, debug=False):
    self.store = Store(env)
    self.env = env
    self.rec_waits = rec_waits
    self.rec_flow_ids = rec_flow_ids
    self.rec_arrivals = rec_arrivals
    self.absolute_arrivals = absolute_arrivals
    self.waits = dd(list)
    self.arrivals = dd(list)
    self.packets_received = dd(lambda: 0)
    self.bytes_received = dd(lambda: 0)
    self.packet_sizes = dd(list)
    self.packet_times = dd(list)
    self.perhop_times = dd(list)
    self.first_arrival = dd(lambda: 0.0)
    origin = env.now
    self.last_arrival = dd(lambda: origin)
    self.debug = debug
''')

SINK_VIEW = View(ignore_calls=('print', 'dprint', 'format', 'sum', 'float'))

spec('PacketSink', 'put', view=SINK_VIEW,
     what='index = flow id or source; waits = now - creation time iff rec_waits; arrivals absolute or inter-arrival; '
          'packet and byte counters always')('''
def put(self, packet):
    now = self.env.now
    if self.rec_flow_ids:
        rec_index = packet.flow_id
    else:
        rec_index = packet.src
    if self.rec_waits:
        self.waits[rec_index].append(now - packet.time)
        self.packet_sizes[rec_index].append(packet.size)
        self.packet_times[rec_index].append(packet.time)
        self.perhop_times[rec_index].append(packet.perhop_time)
    if self.rec_arrivals:
        self.arrivals[rec_index].append(now)
        if len(self.arrivals[rec_index]) == 1:
            self.first_arrival[rec_index] = now
        if not self.absolute_arrivals:
            self.arrivals[rec_index][-1] = now - self.last_arrival[rec_index]
        self.last_arrival[rec_index] = now
    if self.debug:
        DONTCARE()
    self.packets_received[rec_index] += 1
    self.bytes_received[rec_index] += packet.size
''')

# ------------------------------------------------------------------ demux.py / switch.py / hub.py / splitter.py

spec('FlowDemux', '__init__')('''
def __init__(self, outs, default_out=None):
    self.outs = outs
    self.default_out = default_out
    self.packets_recevied = 0
''')

spec('FlowDemux', 'put', what='0 <= f < len(outs): output f; else the default output if any; else nowhere; exactly one forward')('''
def put(self, packet):
    self.packets_recevied += 1
    f = packet.flow_id
    if f < 0:
        if self.default_out:
            self.default_out.put(packet)
    elif f < len(self.outs):
        self.outs[f].put(packet)
    elif self.default_out:
        self.default_out.put(packet)
''')

spec('RandomDemux', '__init__')('''
def __init__(self, outs, probs):
    self.outs = outs
    self.probs = probs
    self.packets_recevied = 0
''')

spec('RandomDemux', 'put', what='exactly one output, drawn with the configured weights')('''
def put(self, packet):
    self.packets_recevied += 1
    random.choices(self.outs, weights=self.probs)[0].put(packet)
''')

spec('FIBDemux', '__init__')('''
def __init__(self, outs=None, ends=None, fib=None, default_out=None):
    self._fib = fib
    self.outs = outs
    self.default_out = default_out
    self.packets_recevied = 0
    if ends is not None:
        self.ends = ends
    else:
        self.ends = dict()
''')

spec('FIBDemux', 'fib')('''
def fib(self):
    return self._fib
''')
spec('FIBDemux', 'fib.setter')('''
def fib(self, val):
    self._fib = val
''')

spec('FIBDemux', 'put', what='a table is absent only when it is None; end device first; else the output the table names (a port '
                            'number that names no output, negative ones included, is a lookup failure); lookup failures go to '
                            'the default output if any; only the lookup is guarded, exactly one forward')('''
def put(self, packet):
    if self._fib is None:
        raise ValueError()
    self.packets_recevied += 1
    flow_id = packet.flow_id
    if flow_id in self.ends:
        self.ends[flow_id].put(packet)
    else:
        try:
            if not self.outs:
                raise IndexError()
            port = self._fib[flow_id]
            if port < 0:
                raise IndexError()
            out = self.outs[port]
        except (KeyError, IndexError, ValueError) as exc:
            out = self.default_out
        if out:
            out.put(packet)
''')

spec('SimplePacketSwitch', '__init__', what='nports FIFO ports in packet mode, a FlowDemux over exactly that list')('''
def __init__(self, env, nports, port_rate, buffer_size, element_id="", debug=False):
    self.env = env
    self.ports = []
    for port in range(nports):
        self.ports.append(Port(env, port_rate, buffer_size, False, f"{element_id}.{port}", debug))
    self.demux = FlowDemux(self.ports, None)
''')

spec('SimplePacketSwitch', 'put')('''
def put(self, packet):
    self.demux.put(packet)
''')

spec('FairPacketSwitch', '__init__', what='per port: egress Port (rate 0, packet limit) feeding that port\'s scheduler; '
                                          'FIBDemux over the egress ports; unknown scheduler names refused')('''
def __init__(self, env, nports, port_rate, buffer_size, weights, server, element_id="", flow2class=lambda fid: fid,
             debug=False):
    self.env = env
    self.ports = []
    self.egress_ports = []
    for port in range(nports):
        egress_port = Port(env, rate=0, qlimit=buffer_size, limit_bytes=False, element_id=f"{element_id}_{port}", debug=debug)
        scheduler = None
        if server == "SP":
            scheduler = SP(env, rate=port_rate, priorities=weights, flow2class=flow2class, debug=debug)
        elif server == "VirtualClock":
            scheduler = VC(env, rate=port_rate, vticks=weights, flow2class=flow2class, debug=debug)
        elif server == "WFQ":
            scheduler = WFQ(env, rate=port_rate, weights=weights, flow2class=flow2class, debug=debug)
        elif server == "DRR":
            scheduler = DRR(env, rate=port_rate, weights=weights, flow2class=flow2class, debug=debug)
        else:
            raise ValueError()
        egress_port.out = scheduler
        self.egress_ports.append(egress_port)
        self.ports.append(scheduler)
    self.demux = FIBDemux(fib=None, outs=self.egress_ports, default_out=None)
''')

spec('FairPacketSwitch', 'put')('''
def put(self, packet):
    self.demux.put(packet)
''')

spec('Hub', '__init__', what='ports list must match the endpoints when given; without ports every endpoint is attached directly')('''
def __init__(self, env, endpoints=[], ports=[]):
    if ports and len(ports) != len(endpoints):
        raise ValueError()
    self.env = env
    self.ports = ports
    self.outs = []
    self.endpoints = []
    for idx, endpoint in enumerate(endpoints):
        if ports:
            self.add_endpoint(endpoint, ports[idx])
        else:
            self.add_endpoint(endpoint, None)
''')

spec('Hub', 'add_endpoint', what='endpoint sends into the hub; the hub reaches it through its port device when one is given')('''
def add_endpoint(self, endpoint, port):
    endpoint.out = self
    if port:
        port.out = endpoint
        self.outs.append(port)
    else:
        self.outs.append(endpoint)
    self.endpoints.append(endpoint)
''')

spec('Hub', 'put', what='every endpoint except the sender gets the packet once through its own output')('''
def put(self, packet):
    for idx, endpoint in enumerate(self.endpoints):
        if endpoint.element_id == packet.src:
            continue
        self.outs[idx].put(packet)
''')

spec('Splitter', '__init__')('''
def __init__(self):
    self.out1 = None
    self.out2 = None
''')

spec('Splitter', 'put', what='a copy of the packet as handed in is taken before the original goes to the first output; the copy goes to the second')('''
def put(self, packet):
    if self.out2:
        dup = copy(packet)
    if self.out1:
        self.out1.put(packet)
    if self.out2:
        self.out2.put(dup)
''')

spec('NSplitter', '__init__')('''
def __init__(self, N):
    if isinstance(N, int):
        if N <= 1:
            raise ValueError()
        self.outs = [None] * N
    else:
        raise TypeError()
''')

spec('NSplitter', 'put', what='one fresh copy per further output, all taken before the original goes to the first output')('''
def put(self, packet):
    copies = [copy(packet) if out else None for out in self.outs[1:]]
    if self.outs[0]:
        self.outs[0].put(packet)
    for out, dup in zip(self.outs[1:], copies):
        if out:
            out.put(dup)
''')


def run_tables(ctx, prefix, keys):
    for (c, m) in keys:
        d = SPECS[(c, m)]
        ctx.table('%s.T.%s.%s' % (prefix, c, m), c, m, d['src'], d['view'] or NVIEW, d['opts'], own=True,
                  ctx_cls=d['ctx'], what=d['what'] or '%s.%s as the property requires' % (c, m))
