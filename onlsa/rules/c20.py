"""C20 - real-time pacing never runs ahead of the wall clock and alters no result"""
from . import kernel, whomay, deps

def check(ctx):
    kernel.run_tables(ctx, 'C20', [
        ('RealtimeEnvironment', '__init__'), ('RealtimeEnvironment', 'sync'), ('RealtimeEnvironment', 'step'),
        ('RealtimeEnvironment', 'factor'), ('RealtimeEnvironment', 'strict'),
    ])
    whomay.rt_overrides(ctx, 'C20')
    deps.kernel(ctx, 'C20', realtime=True)
    return ('Static: RealtimeEnvironment.step compared with the reference table (due = real_start + (t - env_start) * '
            'factor; strict error iff monotonic() - due > factor, before any sleep; sleep re-checked in a loop until '
            'due - monotonic() <= 0; exactly one Environment.step afterwards), sync/__init__ write only the origins, the '
            'subclass overrides only step and writes no kernel state. OS clock and sleep are trusted.')
