"""C13 - static priority always serves the highest-priority backlogged flow"""
from . import sched as S, elements, deps

def check(ctx):
    S.run_tables(ctx, 'C13', [('SP', '__init__'), ('SP', 'run'), ('SP', 'put'), ('MultiQueueScheduler', 'put'),
                              ('MultiQueueScheduler', '__init__'), ('Scheduler', 'send_packet'),
                              ('Scheduler', 'add_packet_to_queue'), ('Scheduler', 'total_packets')])
    elements.sp_rescan(ctx, 'C13')
    elements.send_packet_awaited(ctx, 'C13', only=('SP',))
    elements.class_method_sets(ctx, 'C13', only=('SP', 'MultiQueueScheduler', 'Scheduler'))
    deps.element_layers(ctx, 'C13')
    return ('Static: SP.__init__ (scan list sorted by the priority value, descending) and SP.run (skip a flow iff its '
            'queue is empty at the time, serve one packet awaited, leave the scan and restart from the top after every '
            'service) compared with reference tables, plus the path rule "after a transmission the scan loop is left '
            'before the next dequeue".')
