"""Reference tables for the simulation kernel (onl/sim/core.py, events.py),
shared by C01-C05 and C20.  Each reference function states what the property
needs from that method, in the clearest Python; the engine compares the
method's path table with it region by region (compare.py).
"""
from ..compare import View
from ..paths import Options

KVIEW = View(ignore_calls=('print', 'dprint'), ignore_targets=('*.__cause__', '*.__traceback__'))

SPECS = {}


def spec(cls, meth, own=False, ctx=None, region=None, what='', view=None, opts=None, inherit=False):
    """inherit=True: the method as *resolved* on the class (an inherited definition is compared too), for
    obligations of the kind 'this subclass must not keep the base behaviour'"""
    def deco(src):
        SPECS[(cls, meth)] = dict(cls=cls, meth=meth, src=src, own=own, ctx=ctx, region=region, what=what,
                                  view=view, opts=opts, inherit=inherit)
        return src
    return deco


# --------------------------------------------------------------------------- core.py

spec('Environment', '__init__', what='agenda empty, clock := initial_time, fresh insertion counter')('''
def __init__(self, initial_time=0):
    self._now = initial_time
    self._queue = []
    self._eid = count()
    self._active_proc = None
    BoundClass.bind_early(self)
''')

spec('Environment', 'schedule', what='agenda key is (now + delay, priority, next insertion id, event)')('''
def schedule(self, event, priority=NORMAL, delay=0):
    heappush(self._queue, (self._now + delay, priority, next(self._eid), event))
''')

spec('Environment', 'peek', what='peek reads the time of the minimum key, Infinity when empty')('''
def peek(self):
    try:
        return self._queue[0][0]
    except IndexError:
        return Infinity
''')

spec('Environment', 'step', what='pop the minimum, clock := its time, callbacks := None, every callback once in '
                                 'order, undefused failure re-raised as a copy')('''
def step(self):
    try:
        self._now, _, _, event = heappop(self._queue)
    except IndexError:
        raise EmptySchedule()
    callbacks, event.callbacks = event.callbacks, None
    for callback in callbacks:
        callback(event)
    if not event._ok and not hasattr(event, '_defused'):
        exc = type(event._value)(*event._value.args)
        exc.__cause__ = event._value
        raise exc
''')

spec('Environment', 'run', what='numeric until: refuse at <= now, fresh URGENT sentinel at at-now; event until: '
                                'value at once when processed, otherwise stop only after all its waiters ran; the end of '
                                'the agenda is read from the agenda, so an exception escaping step() is never mistaken for it')('''
def run(self, until=None):
    stop_event = None
    if until is not None:
        if not isinstance(until, Event):
            if isinstance(until, int):
                at = until
            else:
                at = float(until)
            if at <= self.now:
                raise ValueError()
            until = Event(self)
            until._ok = True
            until._value = None
            heappush(self._queue, (at, URGENT, next(self._eid), until))
            until.callbacks.append(StopSimulation.callback)
        elif until.callbacks is None:
            return until.value
        else:
            stop_event = until
    try:
        while self._queue:
            self.step()
            if stop_event is not None and stop_event.callbacks is None:
                StopSimulation.callback(stop_event)
    except StopSimulation as exc:
        return exc.args[0]
    if until is not None:
        assert not until.triggered
        raise RuntimeError()
    return None
''')

spec('Environment', 'run@numeric', what='what C01 needs of run(): no until -> run to the end of the agenda; numeric until: refused unless '
                                        'at > now, fresh sentinel (ok, None) pushed at exactly (at, URGENT, next id) with the stop '
                                        'callback, steps until it fires. An event until is left open here (C02/C03)')('''
def run(self, until=None):
    stop_event = None
    if until is not None:
        if not isinstance(until, Event):
            if isinstance(until, int):
                at = until
            else:
                at = float(until)
            if at <= self.now:
                raise ValueError()
            until = Event(self)
            until._ok = True
            until._value = None
            heappush(self._queue, (at, URGENT, next(self._eid), until))
            until.callbacks.append(StopSimulation.callback)
        else:
            DONTCARE()
            return None
    try:
        while self._queue:
            self.step()
    except StopSimulation as exc:
        return exc.args[0]
    if until is not None:
        assert not until.triggered
        raise RuntimeError()
    return None
''')

spec('StopSimulation', 'callback', what='stop callback raises StopSimulation(value) / the failure')('''
def callback(cls, event):
    if event.ok:
        raise cls(event.value)
    else:
        raise event._value
''')

# --------------------------------------------------------------------------- events.py

spec('Event', '__init__', what='fresh event: empty ordered waiter list')('''
def __init__(self, env):
    self.env = env
    self.callbacks = []
''')

spec('Event', 'trigger', what='chaining copies outcome and schedules NORMAL now')('''
def trigger(self, event):
    self._ok = event._ok
    self._value = event._value
    self.env.schedule(self)
''')

spec('Event', 'succeed', what='second trigger refused before any write; outcome then one NORMAL schedule')('''
def succeed(self, value=None):
    if self._value is not PENDING:
        raise RuntimeError()
    self._ok = True
    self._value = value
    self.env.schedule(self)
    return self
''')

spec('Event', 'fail', what='second trigger refused before any write; non-exceptions refused; one NORMAL schedule')('''
def fail(self, exception):
    if self._value is not PENDING:
        raise RuntimeError()
    if not isinstance(exception, BaseException):
        raise ValueError()
    self._ok = False
    self._value = exception
    self.env.schedule(self)
    return self
''')

spec('Timeout', '__init__', what='negative delay refused; value/ok set; scheduled NORMAL at exactly now + delay')('''
def __init__(self, env, delay, value=None):
    if not delay >= 0:
        raise ValueError()
    super().__init__(env)
    self._value = value
    self._delay = delay
    self._ok = True
    env.schedule(self, NORMAL, delay)
''')

spec('Initialize', '__init__', what='process start is URGENT, resumes the process, delay 0')('''
def __init__(self, env, process):
    self.env = env
    self.callbacks = [process._resume]
    self._value = None
    self._ok = True
    env.schedule(self, URGENT)
''')

spec('Interruption', '__init__', what='pre-failed, pre-defused, refuses dead and self targets before scheduling, URGENT')('''
def __init__(self, process, cause):
    self.env = process.env
    self.callbacks = [self._interrupt]
    self._value = Interrupt(cause)
    self._ok = False
    self._defused = True
    if process.triggered:
        raise RuntimeError()
    if process is self.env.active_process:
        raise RuntimeError()
    self.process = process
    self.env.schedule(self, URGENT)
''')

spec('Interruption', '_interrupt', what='dead victim ignored; victim detached from its target (only itself) then resumed')('''
def _interrupt(self, event):
    if self.process.triggered:
        return
    self.process._target.callbacks.remove(self.process._resume)
    self.process._resume(self)
''')

spec('Process', '__init__', what='generator checked; Initialize created (scheduled) and stored as target')('''
def __init__(self, env, generator):
    if not hasattr(generator, 'throw'):
        raise ValueError()
    self.env = env
    self.callbacks = []
    self._generator = generator
    self._target = Initialize(env, self)
''')

for _m, _sig in (('succeed', 'self, value=None'), ('fail', 'self, exception'), ('trigger', 'self, event')):
    spec('Process', _m, inherit=True, what='a process event is triggered by its own termination only: a hand-made '
                                           'trigger is refused before any write (else the termination is a second trigger)')('''
def %s(%s):
    raise RuntimeError()
''' % (_m, _sig))

spec('Process', 'interrupt', what='interrupt creates exactly one Interruption for this process')('''
def interrupt(self, cause=None):
    Interruption(self, cause)
''')

spec('Process', '_resume', what='send value / defuse + throw copy; termination schedules own NORMAL event; '
                                'processed events are consumed at once; subscribe exactly once')('''
def _resume(self, event):
    self.env._active_proc = self
    while True:
        try:
            if event._ok:
                event = self._generator.send(event._value)
            else:
                event._defused = True
                exc = type(event._value)(*event._value.args)
                exc.__cause__ = event._value
                event = self._generator.throw(exc)
        except StopIteration as e:
            event = None
            self._ok = True
            self._value = e.args[0] if len(e.args) else None
            self.env.schedule(self)
            break
        except BaseException as e:
            event = None
            self._ok = False
            e.__traceback__ = e.__traceback__.tb_next
            self._value = e
            self.env.schedule(self)
            break
        try:
            if event.callbacks is not None:
                event.callbacks.append(self._resume)
                break
        except AttributeError:
            if hasattr(event, 'callbacks'):
                raise
            DONTCARE()
    self._target = event
    self.env._active_proc = None
''')

spec('ConditionValue', '__init__')('''
def __init__(self):
    self.events = []
''')

spec('Condition', '__init__', what='empty -> immediate success; foreign environment refused before any subscription; '
                                   'processed operands checked at once, others subscribed; value builder last')('''
def __init__(self, env, evaluate, events):
    super().__init__(env)
    self._evaluate = evaluate
    self._events = tuple(events)
    self._count = 0
    if not self._events:
        self.succeed(ConditionValue())
        return
    for event in self._events:
        if self.env != event.env:
            raise ValueError()
    for event in self._events:
        if event.callbacks is None:
            self._check(event)
        else:
            event.callbacks.append(self._check)
    assert isinstance(self.callbacks, list)
    self.callbacks.append(self._build_value)
''')

spec('Condition', '_populate_value', what='leaves included iff processed, nested conditions recursed, operand order')('''
def _populate_value(self, value):
    for event in self._events:
        if isinstance(event, Condition):
            event._populate_value(value)
        elif event.callbacks is None:
            value.events.append(event)
''')

spec('Condition', '_build_value', what='value built when the condition is processed, only if ok; checks detached')('''
def _build_value(self, event):
    self._remove_check_callbacks()
    if event._ok:
        self._value = ConditionValue()
        self._populate_value(self._value)
''')

spec('Condition', '_remove_check_callbacks', what='detach own _check only, recursively')('''
def _remove_check_callbacks(self):
    for event in self._events:
        if event.callbacks and self._check in event.callbacks:
            event.callbacks.remove(self._check)
        if isinstance(event, Condition):
            event._remove_check_callbacks()
''')

spec('Condition', '_check', what='no effect once triggered; count once; operand failure defused and forwarded; '
                                 'succeed when the predicate holds')('''
def _check(self, event):
    if self._value is not PENDING:
        return
    self._count += 1
    if not event._ok:
        event._defused = True
        self.fail(event._value)
    elif self._evaluate(self._events, self._count):
        self.succeed()
''')

spec('Condition', 'all_events', what='all_of predicate: every operand processed')('''
def all_events(events, count):
    return len(events) == count
''')

spec('Condition', 'any_events', what='any_of predicate: at least one processed, or no operands')('''
def any_events(events, count):
    return count > 0 or len(events) == 0
''')

spec('AllOf', '__init__')('''
def __init__(self, env, events):
    super().__init__(env, Condition.all_events, events)
''')

spec('AnyOf', '__init__')('''
def __init__(self, env, events):
    super().__init__(env, Condition.any_events, events)
''')

spec('Event', '__and__')('''
def __and__(self, other):
    return Condition(self.env, Condition.all_events, [self, other])
''')

spec('Event', '__or__')('''
def __or__(self, other):
    return Condition(self.env, Condition.any_events, [self, other])
''')

spec('ConditionValue', '__getitem__')('''
def __getitem__(self, key):
    if key not in self.events:
        raise KeyError()
    return key._value
''')

spec('ConditionValue', 'todict')('''
def todict(self):
    return dict((event, event._value) for event in self.events)
''')

spec('ConditionValue', 'keys')('''
def keys(self):
    return (event for event in self.events)
''')

spec('ConditionValue', 'values')('''
def values(self):
    return (event._value for event in self.events)
''')

spec('ConditionValue', 'items')('''
def items(self):
    return ((event, event._value) for event in self.events)
''')

spec('ConditionValue', '__iter__')('''
def __iter__(self):
    return self.keys()
''')

spec('Event', 'triggered')('''
def triggered(self):
    return self._value is not PENDING
''')

spec('Event', 'processed')('''
def processed(self):
    return self.callbacks is None
''')

spec('Event', 'ok')('''
def ok(self):
    return self._ok
''')

spec('Event', 'value')('''
def value(self):
    if self._value is PENDING:
        raise AttributeError()
    return self._value
''')

spec('Event', 'defused')('''
def defused(self):
    return hasattr(self, '_defused')
''')

spec('Process', 'is_alive')('''
def is_alive(self):
    return self._value is PENDING
''')

spec('Process', 'target')('''
def target(self):
    return self._target
''')

spec('Interrupt', 'cause')('''
def cause(self):
    return self.args[0]
''')

spec('Interrupt', '__init__')('''
def __init__(self, cause):
    super(Interrupt, self).__init__(cause)
''')

# --------------------------------------------------------------------------- rt.py

spec('RealtimeEnvironment', '__init__', what='kernel initialised unchanged; origins recorded')('''
def __init__(self, initial_time=0, factor=1.0, strict=True):
    Environment.__init__(self, initial_time)
    self.env_start = initial_time
    self.real_start = monotonic()
    self._factor = factor
    self._strict = strict
''')

spec('RealtimeEnvironment', 'sync', what='sync re-bases real_start only')('''
def sync(self):
    self.real_start = monotonic()
''')

spec('RealtimeEnvironment', 'step', what='due = real_start + (t - env_start)*factor; strict error iff lag > factor '
                                         'before sleeping; sleep until due (re-check loop); then exactly one kernel step')('''
def step(self):
    evt_time = self.peek()
    if evt_time is Infinity:
        raise EmptySchedule()
    real_time = self.real_start + (evt_time - self.env_start) * self.factor
    if self.strict and monotonic() - real_time > self.factor:
        delta = monotonic() - real_time
        raise RuntimeError()
    while True:
        delta = real_time - monotonic()
        if delta <= 0:
            break
        sleep(delta)
    Environment.step(self)
''')

spec('RealtimeEnvironment', 'factor')('''
def factor(self):
    return self._factor
''')

spec('RealtimeEnvironment', 'strict')('''
def strict(self):
    return self._strict
''')


# what C01 needs of Process._resume: *that* and *how* the termination goes through the agenda (every exit of the
# generator schedules the process event once, NORMAL, now; nobody but step() marks an event processed).  Values sent,
# exceptions thrown and subscriptions are C02/C04.
AGENDA_VIEW = View(only_calls=('schedule', 'heappush'), observe_only=('*.callbacks',), ignore_exit_value=True)
SPECS[('Process', '_resume@agenda')] = dict(SPECS[('Process', '_resume')], view=AGENDA_VIEW,
                                            what='every way the generator ends puts the process event on the agenda exactly once '
                                                 '(NORMAL, now); the event is never marked processed here')


def run_tables(ctx, prefix, keys):
    """run the named reference tables under rule ids <prefix>.<Class>.<method>"""
    for (c, m) in keys:
        d = SPECS[(c, m)]
        ctx.table('%s.T.%s.%s' % (prefix, c, m), c, m.split('@')[0], d['src'], d['view'] or KVIEW, d['opts'],
                  ctx_cls=d['ctx'], region=d['region'], own=not d['inherit'], what=d['what'] or '%s.%s as the property requires' % (c, m))
