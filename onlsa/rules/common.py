"""helpers shared by the rule modules"""
