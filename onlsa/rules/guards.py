"""Guards that must also refuse an unordered number (NaN).

The path tables compare guards over the reals, where `x <= 0` and `not x > 0` are the same region.  They are not
the same program: every ordering comparison with a NaN is False, so the first form lets a NaN through and the
second refuses it.  For the handful of numeric entry points where an unordered value destroys an invariant the
properties state without exception (agenda order / monotone clock, container level within its bounds) this rule
evaluates each refusing guard under "every comparison that involves the parameter is False" (three-valued: other
sub-expressions are unknown) and demands that some guard of the entry point is then *definitely* taken.

It is an evaluation of the guard expression for one abstract input, not a text match: `not d >= 0`,
`d != d or d < 0`, `math.isnan(d) or d < 0`, `not (0 < a < inf)` all pass; `d < 0`, `d <= 0 or d > cap` do not.
A guard moved into a helper is followed through the call (one level per step, by argument position)."""
import ast

from ..model import walk_local, AnalysisError


def _mentions(node, names):
    return any(isinstance(n, ast.Name) and n.id in names for n in ast.walk(node))


_RESOLVER = [None]      # set by _refuses_nan: call node -> (return expression of the callee, tainted parameter names) or None


def nan_value(test, names, temps=None, depth=0):
    """True / False / None (unknown) of `test` when every name in `names` holds a NaN.
    temps: local name -> the one expression assigned to it (a guard kept in a temporary is looked through)"""
    temps = temps or {}
    if isinstance(test, ast.Name) and test.id in temps and depth < 4:
        return nan_value(temps[test.id], names, temps, depth + 1)
    if isinstance(test, ast.UnaryOp) and isinstance(test.op, ast.Not):
        v = nan_value(test.operand, names, temps, depth)
        return None if v is None else (not v)
    if isinstance(test, ast.BoolOp):
        vs = [nan_value(v, names, temps, depth) for v in test.values]
        if isinstance(test.op, ast.And):
            if any(v is False for v in vs):
                return False
            return True if all(v is True for v in vs) else None
        if any(v is True for v in vs):
            return True
        return False if all(v is False for v in vs) else None
    if isinstance(test, ast.Compare):
        vals = []
        left = test.left
        for op, right in zip(test.ops, test.comparators):
            if _mentions(left, names) or _mentions(right, names):
                if isinstance(op, (ast.Lt, ast.LtE, ast.Gt, ast.GtE, ast.Eq)):
                    vals.append(False)
                elif isinstance(op, ast.NotEq):
                    vals.append(True)
                else:
                    vals.append(None)
            else:
                vals.append(None)
            left = right
        if any(v is False for v in vals):
            return False
        return True if all(v is True for v in vals) else None
    if isinstance(test, ast.Call):
        fn = ast.unparse(test.func).split('.')[-1]
        if test.args and _mentions(test.args[0], names):
            if fn == 'isnan':
                return True
            if fn == 'isfinite':
                return False
        # a predicate of the repository (def _is_valid(x): return x >= 0): evaluate its return expression
        if _RESOLVER[0] is not None and depth < 4:
            r = _RESOLVER[0](test, names)
            if r is not None:
                expr, pnames = r
                return nan_value(expr, pnames, {}, depth + 1)
    return None


_PASS_THROUGH = {'float', 'int', 'abs'}


def _tainted(fnode, seeds):
    """names that carry the parameter's value: the seeds and locals assigned from a conversion / arithmetic of them"""
    names = set(seeds)
    changed = True

    def carries(e):
        if isinstance(e, ast.Name):
            return e.id in names
        if isinstance(e, ast.Call) and isinstance(e.func, ast.Name) and e.func.id in _PASS_THROUGH and e.args:
            return carries(e.args[0])
        if isinstance(e, ast.BinOp):
            return carries(e.left) or carries(e.right)
        if isinstance(e, ast.UnaryOp) and isinstance(e.op, (ast.USub, ast.UAdd)):
            return carries(e.operand)
        if isinstance(e, ast.IfExp):
            return carries(e.body) or carries(e.orelse)
        return False
    while changed:
        changed = False
        for n in walk_local(fnode):
            tgt = val = None
            if isinstance(n, ast.Assign) and len(n.targets) == 1 and isinstance(n.targets[0], ast.Name):
                tgt, val = n.targets[0].id, n.value
            elif isinstance(n, ast.AnnAssign) and isinstance(n.target, ast.Name) and n.value is not None:
                tgt, val = n.target.id, n.value
            if tgt and tgt not in names and carries(val):
                names.add(tgt)
                changed = True
    return names


def _raises(body):
    return bool(body) and (isinstance(body[0], ast.Raise) or
                           (isinstance(body[-1], ast.Raise) and all(isinstance(s, (ast.Expr, ast.Assign, ast.Raise)) for s in body)))


def _refuses_nan(repo, f, param, depth=0):
    """(verdict, [guards seen as text])"""
    names = _tainted(f.node, {param})
    seen = []

    def resolver(call, tainted):
        fnode = call.func
        target = None
        skip_self = False
        if isinstance(fnode, ast.Name):
            r = repo.resolve_name(f.module, fnode.id)
            if r and r[0] == 'func':
                target = r[1]
        elif isinstance(fnode, ast.Attribute) and isinstance(fnode.value, ast.Name) and fnode.value.id in ('self', 'cls') and f.cls is not None:
            target = f.cls.lookup(fnode.attr)
            skip_self = True
        if target is None:
            return None
        body = [s_ for s_ in target.node.body if not (isinstance(s_, ast.Expr) and isinstance(s_.value, ast.Constant))]
        if len(body) != 1 or not isinstance(body[0], ast.Return) or body[0].value is None:
            return None
        ps = list(target.params)
        if skip_self and ps and ps[0] in ('self', 'cls'):
            ps = ps[1:]
        pn = {ps[i] for i, a in enumerate(call.args) if i < len(ps) and _mentions(a, tainted)}
        if not pn:
            return None
        return body[0].value, pn
    _RESOLVER[0] = resolver
    # boolean temporaries: names assigned exactly once from an expression that mentions the value
    count, temps = {}, {}
    for n in walk_local(f.node):
        if isinstance(n, ast.Assign) and len(n.targets) == 1 and isinstance(n.targets[0], ast.Name):
            count[n.targets[0].id] = count.get(n.targets[0].id, 0) + 1
            temps[n.targets[0].id] = n.value
        elif isinstance(n, (ast.AugAssign, ast.AnnAssign)) and isinstance(n.target, ast.Name):
            count[n.target.id] = count.get(n.target.id, 0) + 2
    temps = {k: v for k, v in temps.items() if count.get(k) == 1 and k not in names and _mentions(v, names)}

    def mentions(t):
        return _mentions(t, names) or _mentions(t, set(temps))
    for n in walk_local(f.node):
        if isinstance(n, ast.If) and mentions(n.test):
            if _raises(n.body):
                seen.append(ast.unparse(n.test))
                if nan_value(n.test, names, temps) is True:
                    return True, seen
            elif _raises(n.orelse):
                seen.append('not (%s)' % ast.unparse(n.test))
                if nan_value(n.test, names, temps) is False:
                    return True, seen
        elif isinstance(n, ast.Assert) and mentions(n.test):
            seen.append('assert ' + ast.unparse(n.test))
            if nan_value(n.test, names, temps) is False:
                return True, seen
    # if <accepting test>: return ...   followed by an unconditional raise: the raise is the refusal of `not test`
    for blk_owner in walk_local(f.node):
        for fld in ('body', 'orelse', 'finalbody'):
            blk = getattr(blk_owner, fld, None)
            if not isinstance(blk, list):
                continue
            for i_, st_ in enumerate(blk[:-1]):
                if isinstance(st_, ast.If) and not st_.orelse and st_.body and isinstance(st_.body[-1], ast.Return) and mentions(st_.test) \
                        and isinstance(blk[i_ + 1], ast.Raise):
                    seen.append('not (%s)' % ast.unparse(st_.test))
                    if nan_value(st_.test, names, temps) is False:
                        return True, seen
    body0 = f.node.body
    for i_, st_ in enumerate(body0[:-1]):
        if isinstance(st_, ast.If) and not st_.orelse and st_.body and isinstance(st_.body[-1], ast.Return) and mentions(st_.test) \
                and isinstance(body0[i_ + 1], ast.Raise):
            seen.append('not (%s)' % ast.unparse(st_.test))
            if nan_value(st_.test, names, temps) is False:
                return True, seen
    if depth < 3:
        for n in walk_local(f.node):
            if not isinstance(n, ast.Call):
                continue
            callee = None
            if isinstance(n.func, ast.Name):
                callee = n.func.id
                skip_self = False
            elif isinstance(n.func, ast.Attribute) and isinstance(n.func.value, ast.Name) and n.func.value.id in ('self', 'cls'):
                callee = n.func.attr
                skip_self = True
            if callee is None or callee in _PASS_THROUGH:
                continue
            for i, a in enumerate(n.args):
                if isinstance(a, ast.Name) and a.id in names:
                    cands = [g for g in repo.all_functions() if g.name == callee and g.module.name.startswith('onl.sim')]
                    for g in cands:
                        ps = [p for p in g.params if not (skip_self and p in ('self', 'cls'))]
                        if g.cls is not None and not skip_self and ps and ps[0] in ('self', 'cls'):
                            ps = ps[1:]
                        if i < len(ps):
                            ok, s2 = _refuses_nan(repo, g, ps[i], depth + 1)
                            seen.extend('%s: %s' % (g.qualname, x) for x in s2)
                            if ok:
                                return True, seen
    return False, seen


def nan_refused(ctx, prop, sites, why):
    """sites: [(Class, method, parameter)]"""
    rule = prop + '.G.unordered-refused'
    for clsname, meth, param in sites:
        cls = ctx.repo.find_class(clsname)
        f = cls.own(meth)
        if f is None:
            raise AnalysisError('%s: anchor vanished: %s.%s' % (rule, clsname, meth))
        if param not in f.params:
            raise AnalysisError('%s: %s.%s has no parameter %r any more' % (rule, clsname, meth, param))
        ok, seen = _refuses_nan(ctx.repo, f, param)
        ctx.ob(rule, ok)
        construct = '%s::%s' % (f.module.relpath, f.qualname)
        if ok:
            ctx.sample(rule, construct, 'a NaN %r is refused: guard(s) %s' % (param, '; '.join(seen)[:300]))
        else:
            ctx.violation(rule, construct, 'unordered %s accepted' % param,
                          '%s.%s: no refusing guard is taken when %r is a NaN (every ordering comparison with it is False; '
                          'guards seen: %s): %s' % (clsname, meth, param, '; '.join(seen)[:300] or 'none', why), where=f.where)
    ctx.floor(rule, len(sites), len(sites), 'numeric entry points')


# ------------------------------------------------------------------------------------------------------------------
# absorption: x + eps == x in floating point

def _abs_eval(e, env, temps, depth=0):
    """value of a numeric expression in the abstract domain {'C', 'eps', 0, None}: C is the common value of level and
    capacity of a full container, eps a positive amount too small to change C when added to it"""
    if isinstance(e, ast.Name) and e.id in temps and depth < 4:
        return _abs_eval(temps[e.id], env, temps, depth + 1)
    key = ast.unparse(e)
    if key in env:
        return env[key]
    if isinstance(e, ast.Constant) and e.value == 0:
        return 0
    if isinstance(e, ast.BinOp) and isinstance(e.op, (ast.Add, ast.Sub)):
        l, r = _abs_eval(e.left, env, temps, depth), _abs_eval(e.right, env, temps, depth)
        if l is None or r is None:
            return None
        if isinstance(e.op, ast.Add):
            if {l, r} == {'C', 'eps'} or (l, r) in (('C', 0), (0, 'C')):
                return 'C'                                # absorbed
            if (l, r) in (('eps', 0), (0, 'eps')):
                return 'eps'
            if (l, r) == (0, 0):
                return 0
            return None
        if (l, r) == ('C', 'C') or (l, r) == (0, 0):
            return 0
        if (l, r) == ('C', 'eps') or (l, r) == ('C', 0):
            return 'C'
        if (l, r) == ('eps', 0):
            return 'eps'
        return None
    return None


_ORDER = {0: 0, 'eps': 1, 'C': 2}


def _abs_cond(t, env, temps, depth=0):
    if isinstance(t, ast.Name) and t.id in temps and depth < 4:
        return _abs_cond(temps[t.id], env, temps, depth + 1)
    if isinstance(t, ast.UnaryOp) and isinstance(t.op, ast.Not):
        v = _abs_cond(t.operand, env, temps, depth)
        return None if v is None else (not v)
    if isinstance(t, ast.BoolOp):
        vs = [_abs_cond(v, env, temps, depth) for v in t.values]
        if isinstance(t.op, ast.And):
            if any(v is False for v in vs):
                return False
            return True if all(v is True for v in vs) else None
        if any(v is True for v in vs):
            return True
        return False if all(v is False for v in vs) else None
    if isinstance(t, ast.Compare):
        left = t.left
        out = True
        for op, right in zip(t.ops, t.comparators):
            l, r = _abs_eval(left, env, temps), _abs_eval(right, env, temps)
            if l is None or r is None:
                return None
            a, b = _ORDER[l], _ORDER[r]
            v = {ast.Lt: a < b, ast.LtE: a <= b, ast.Gt: a > b, ast.GtE: a >= b, ast.Eq: a == b, ast.NotEq: a != b}.get(type(op))
            if v is None:
                return None
            out = out and v
            left = right
        return out
    return None


def absorbed_put_refused(ctx, prop):
    """A full container (level == capacity) must refuse every put.  `level + amount <= capacity` does not: an amount
    below the resolution of the level is absorbed by the addition, the sum *is* the capacity, the put is granted,
    and a producer looping on it never blocks.  The grant guard of Container._do_put is evaluated in the abstract
    domain {0, eps, C} with C + eps = C; it must come out False."""
    rule = prop + '.G.absorbed-put'
    c = ctx.repo.find_class('Container')
    f = c.own('_do_put')
    if f is None:
        raise AnalysisError('%s: anchor vanished: Container._do_put' % rule)
    f = f.normalized()          # nested ifs read as one conjunction, guard temporaries inlined
    evname = [p for p in f.params if p != 'self'][0]
    env = {'self._level': 'C', 'self.level': 'C', 'self._capacity': 'C', 'self.capacity': 'C', '%s.amount' % evname: 'eps'}
    temps, count = {}, {}
    for n in walk_local(f.node):
        if isinstance(n, ast.Assign) and len(n.targets) == 1 and isinstance(n.targets[0], ast.Name):
            temps[n.targets[0].id] = n.value
            count[n.targets[0].id] = count.get(n.targets[0].id, 0) + 1
    temps = {k: v for k, v in temps.items() if count[k] == 1}
    grants = []
    for n in walk_local(f.node):
        if isinstance(n, ast.If):
            body_grants = any(isinstance(x, ast.Call) and isinstance(x.func, ast.Attribute) and x.func.attr == 'succeed' for s_ in n.body for x in ast.walk(s_))
            else_grants = any(isinstance(x, ast.Call) and isinstance(x.func, ast.Attribute) and x.func.attr == 'succeed' for s_ in n.orelse for x in ast.walk(s_))
            if body_grants or else_grants:
                grants.append((n, body_grants))
    if not grants:
        # guard clause form: if not fits: return False ; ... succeed()
        for n in walk_local(f.node):
            if isinstance(n, ast.If) and n.body and isinstance(n.body[-1], ast.Return) and not n.orelse:
                grants.append((n, False))
    if not grants:
        raise AnalysisError('%s: no grant guard found in Container._do_put' % rule)
    construct = '%s::%s' % (f.module.relpath, f.qualname)
    for n, positive in grants:
        v = _abs_cond(n.test, env, temps)
        granted = v if positive else (None if v is None else (not v))
        ok = granted is False
        ctx.ob(rule, ok)
        if ok:
            ctx.sample(rule, construct, 'guard %s refuses an absorbed amount on a full container' % ast.unparse(n.test)[:120])
        else:
            ctx.violation(rule, construct, 'absorbed put granted',
                          'Container._do_put: the guard `%s` %s when level == capacity and the amount is below the resolution of '
                          'the level (level + amount == level): a full container grants puts for ever' %
                          (ast.unparse(n.test)[:160], 'holds' if granted else 'cannot be shown to fail'),
                          where='%s:%d' % (f.module.relpath, n.lineno))


def stored_level_tested(ctx, prop):
    """The level a Container stores must be a value the grant guard has compared with the capacity.  Testing the room
    (`capacity - level >= amount`) and then storing `level + amount` are the same over the reals, but the stored sum
    is rounded on its own and can land above the capacity (capacity 3.4, level 1.2, put 2.2 -> 3.4000000000000004).
    Structural: some conjunct of the guard is `<what is stored> <= capacity` (through single-assignment temporaries)."""
    from ..terms import term
    rule = prop + '.G.stored-level-tested'
    c = ctx.repo.find_class('Container')
    f = c.own('_do_put')
    if f is None:
        raise AnalysisError('%s: anchor vanished: Container._do_put' % rule)
    f = f.normalized()
    temps, count = {}, {}
    for n in walk_local(f.node):
        if isinstance(n, ast.Assign) and len(n.targets) == 1 and isinstance(n.targets[0], ast.Name):
            temps[n.targets[0].id] = n.value
            count[n.targets[0].id] = count.get(n.targets[0].id, 0) + 1
    temps = {k: v for k, v in temps.items() if count[k] == 1}

    class R(ast.NodeTransformer):
        def visit_Name(self, x):
            if x.id in temps and isinstance(x.ctx, ast.Load):
                return self.visit(ast.parse(ast.unparse(temps[x.id]), mode='eval').body)
            return x

    def canon(e):
        return term(R().visit(ast.parse(ast.unparse(e), mode='eval').body))
    stored = []
    for n in walk_local(f.node):
        if isinstance(n, ast.Assign) and len(n.targets) == 1 and isinstance(n.targets[0], ast.Attribute) and n.targets[0].attr in ('_level', 'level') \
                and isinstance(n.targets[0].value, ast.Name) and n.targets[0].value.id == 'self':
            stored.append((n, canon(n.value)))
        elif isinstance(n, ast.AugAssign) and isinstance(n.target, ast.Attribute) and n.target.attr in ('_level', 'level') and isinstance(n.op, ast.Add):
            stored.append((n, canon(ast.BinOp(left=ast.Attribute(value=ast.Name(id='self', ctx=ast.Load()), attr=n.target.attr, ctx=ast.Load()),
                                               op=ast.Add(), right=n.value))))
    if not stored:
        # deferred like a floor: with a violation from the tables of the same tree that verdict stands; alone it is
        # analysis-broken, never a silent pass
        ctx.floor_errors.append('%s: Container._do_put stores no level any more' % rule)
        return
    tested = set()
    for n in walk_local(f.node):
        if isinstance(n, ast.Compare) and len(n.ops) == 1:
            l, r = n.left, n.comparators[0]
            if isinstance(n.ops[0], ast.LtE) and ast.unparse(r) in ('self._capacity', 'self.capacity'):
                tested.add(canon(l))
            if isinstance(n.ops[0], ast.GtE) and ast.unparse(l) in ('self._capacity', 'self.capacity'):
                tested.add(canon(r))
    # temporaries holding the capacity
    for k, v in temps.items():
        if ast.unparse(v) in ('self._capacity', 'self.capacity'):
            for n in walk_local(f.node):
                if isinstance(n, ast.Compare) and len(n.ops) == 1:
                    l, r = n.left, n.comparators[0]
                    if isinstance(n.ops[0], ast.LtE) and isinstance(r, ast.Name) and r.id == k:
                        tested.add(canon(l))
                    if isinstance(n.ops[0], ast.GtE) and isinstance(l, ast.Name) and l.id == k:
                        tested.add(canon(r))
    construct = '%s::%s' % (f.module.relpath, f.qualname)
    for n, val in stored:
        ok = val in tested
        ctx.ob(rule, ok)
        if ok:
            ctx.sample(rule, construct, 'the stored level %s is compared with the capacity before it is stored' % val)
        else:
            ctx.violation(rule, construct, 'stored level not tested',
                          'Container._do_put stores %s, a sum the guard never compares with the capacity (it tests %s): the rounded sum '
                          'can exceed the capacity although the room test passed' % (val, sorted(tested) or 'nothing of that form'),
                          where='%s:%d' % (f.module.relpath, n.lineno))


# ------------------------------------------------------------------------------------------------------------------
# inf - inf: the room of an inexhaustible source

def _inf_eval(e, env, temps, depth=0):
    """value in the abstract domain {'INF', 'NAN', 'fin' (finite, positive), 0, None}"""
    if isinstance(e, ast.Name) and e.id in temps and depth < 4:
        return _inf_eval(temps[e.id], env, temps, depth + 1)
    key = ast.unparse(e)
    if key in env:
        return env[key]
    if isinstance(e, ast.Constant) and e.value == 0:
        return 0
    if isinstance(e, ast.BinOp) and isinstance(e.op, (ast.Add, ast.Sub)):
        l, r = _inf_eval(e.left, env, temps, depth), _inf_eval(e.right, env, temps, depth)
        if l is None or r is None:
            return None
        if 'NAN' in (l, r):
            return 'NAN'
        if isinstance(e.op, ast.Add):
            if 'INF' in (l, r):
                return 'INF'
            if l == 0:
                return r
            if r == 0:
                return l
            return 'fin'
        if (l, r) == ('INF', 'INF'):
            return 'NAN'
        if l == 'INF':
            return 'INF'
        if r == 0:
            return l
        return None
    return None


def _inf_cond(t, env, temps, depth=0):
    if isinstance(t, ast.Name) and t.id in temps and depth < 4:
        return _inf_cond(temps[t.id], env, temps, depth + 1)
    if isinstance(t, ast.UnaryOp) and isinstance(t.op, ast.Not):
        v = _inf_cond(t.operand, env, temps, depth)
        return None if v is None else (not v)
    if isinstance(t, ast.BoolOp):
        vs = [_inf_cond(v, env, temps, depth) for v in t.values]
        if isinstance(t.op, ast.And):
            if any(v is False for v in vs):
                return False
            return True if all(v is True for v in vs) else None
        if any(v is True for v in vs):
            return True
        return False if all(v is False for v in vs) else None
    if isinstance(t, ast.Compare):
        left, out = t.left, True
        rank = {0: 0, 'fin': 1, 'INF': 2}
        for op, right in zip(t.ops, t.comparators):
            l, r = _inf_eval(left, env, temps), _inf_eval(right, env, temps)
            if l is None or r is None:
                return None
            if 'NAN' in (l, r):
                v = isinstance(op, ast.NotEq)
            elif l == r == 'fin':
                return None
            else:
                a, b = rank[l], rank[r]
                v = {ast.Lt: a < b, ast.LtE: a <= b, ast.Gt: a > b, ast.GtE: a >= b, ast.Eq: a == b, ast.NotEq: a != b}.get(type(op))
                if v is None:
                    return None
            out = out and v
            left = right
        return out
    return None


def infinite_source_put(ctx, prop):
    """Container(init=inf) with the default capacity inf is an inexhaustible source; a put into it fits (inf + a <= inf).
    A room test written as `capacity - level >= amount` computes inf - inf = NaN there and refuses every put for ever -
    a stranded request.  The grant guard of Container._do_put is evaluated with level = capacity = inf and a finite
    positive amount (inf - inf = NaN, every ordering comparison with NaN False); it must come out True."""
    rule = prop + '.G.infinite-source'
    c = ctx.repo.find_class('Container')
    f = c.own('_do_put')
    if f is None:
        raise AnalysisError('%s: anchor vanished: Container._do_put' % rule)
    f = f.normalized()
    evname = [p for p in f.params if p != 'self'][0]
    env = {'self._level': 'INF', 'self.level': 'INF', 'self._capacity': 'INF', 'self.capacity': 'INF', '%s.amount' % evname: 'fin'}
    temps, count = {}, {}
    for n in walk_local(f.node):
        if isinstance(n, ast.Assign) and len(n.targets) == 1 and isinstance(n.targets[0], ast.Name):
            temps[n.targets[0].id] = n.value
            count[n.targets[0].id] = count.get(n.targets[0].id, 0) + 1
    temps = {k: v for k, v in temps.items() if count[k] == 1}
    grants = []
    for n in walk_local(f.node):
        if isinstance(n, ast.If):
            has = lambda body: any(isinstance(x, ast.Call) and isinstance(x.func, ast.Attribute) and x.func.attr == 'succeed'
                                   for s_ in body for x in ast.walk(s_))
            if has(n.body) or has(n.orelse):
                grants.append((n, has(n.body)))
    if not grants:
        for n in walk_local(f.node):
            if isinstance(n, ast.If) and n.body and isinstance(n.body[-1], ast.Return) and not n.orelse:
                grants.append((n, False))
    if not grants:
        raise AnalysisError('%s: no grant guard found in Container._do_put' % rule)
    construct = '%s::%s' % (f.module.relpath, f.qualname)
    for n, positive in grants:
        v = _inf_cond(n.test, env, temps)
        granted = v if positive else (None if v is None else (not v))
        ok = granted is True
        ctx.ob(rule, ok)
        if ok:
            ctx.sample(rule, construct, 'guard %s grants a finite put into an infinite level under an infinite capacity' % ast.unparse(n.test)[:120])
        else:
            ctx.violation(rule, construct, 'put into an infinite level refused',
                          'Container._do_put: the guard `%s` %s when level == capacity == inf (capacity - level is NaN): every put '
                          'into an inexhaustible source is stranded for ever' %
                          (ast.unparse(n.test)[:160], 'fails' if granted is False else 'cannot be shown to hold'),
                          where='%s:%d' % (f.module.relpath, n.lineno))
