"""C09 - a port serialises at its line rate and tail-drops exactly at its limit"""
from . import netdev as N, resources as R, elements, deps

def check(ctx):
    N.run_tables(ctx, 'C09', [('Port', '__init__'), ('Port', 'put'), ('Port', 'run'), ('REDPort', '__init__'),
                              ('REDPort', 'put'), ('PortMonitor', '__init__'), ('PortMonitor', 'run'),
                              ('PortMonitor', 'sizes'), ('PortMonitor', 'sizes_byte'),
                              ('Device', 'element_id'), ('Device', 'element_id.setter'), ('OutMixIn', 'out'),
                              ('OutMixIn', 'out.setter')])
    R.run_tables(ctx, 'C09', [('Store', '_do_put@unbounded'), ('Store', '_do_get')])
    elements.byte_accounting(ctx, 'C09')
    elements.override_keeps_base_effects(ctx, 'C09')
    elements.spawn_sites(ctx, 'C09', only=('Port', 'REDPort'))
    elements.class_method_sets(ctx, 'C09', only=('Port', 'REDPort', 'PortMonitor'))
    deps.element_layers(ctx, 'C09')
    return ('Static: Port.put (thresholds held+size > qlimit / waiting >= qlimit-1 / never for None, byte accounting, hop '
            'stamp), Port.run (one packet at a time, 8*size/rate, bytes released on every path, one forward), REDPort.put '
            '(EWMA gain, three regions, one uniform draw) and PortMonitor.run compared with reference tables; inc/dec '
            'pairing of byte_size across put and run; an overriding put keeps the base port\'s common effects. Departure '
            'instants and drop frequencies are numeric/statistical and are not decided.')
