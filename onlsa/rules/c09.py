"""C09 - a port serialises at its line rate and tail-drops exactly at its limit"""
from ..compare import View
from ..paths import Options
from . import common

PORT_PUT = '''
def put(self, packet):
    self.packets_received += 1
    if self.element_id is None:
        pass
    elif self.element_id:
        packet.perhop_time[self.element_id] = self.env.now
    else:
        DONTCARE('@p1.perhop_time')          # an id that is falsy but not None: not constrained
    if self.qlimit is None:
        self.byte_size = self.byte_size + packet.size
        self.store.put(packet)
    elif self.limit_bytes:
        if self.byte_size + packet.size > self.qlimit:
            self.packets_dropped += 1
        else:
            self.byte_size = self.byte_size + packet.size
            self.store.put(packet)
    else:
        if len(self.store.items) >= self.qlimit - 1:
            self.packets_dropped += 1
        else:
            self.byte_size = self.byte_size + packet.size
            self.store.put(packet)
'''

PORT_RUN = '''
def run(self, env):
    while True:
        packet = yield self.store.get()
        self.busy = 1
        self.busy_packet_size = packet.size
        if self.rate > 0:
            yield env.timeout(packet.size * 8 / self.rate)
        self.byte_size -= packet.size
        if self.out:
            self.out.put(packet)
        self.busy = 0
        self.busy_packet_size = 0
'''

def check(ctx):
    v = View(ignore_calls=('print',), ignore_targets=(), ignore_exit_value=True)
    ctx.table('C09.R2', 'Port', 'put', PORT_PUT, v, what='Port.put accept/drop/stamp table')
    ctx.table('C09.R1', 'Port', 'run', PORT_RUN, v, region=0, what='Port.run per-packet service')
    return 'static path-table equivalence'
