"""C15 - round-robin schedulers give each backlogged class its per-visit allowance"""
from . import sched as S, elements, keydomains, deps

def check(ctx):
    S.run_tables(ctx, 'C15', [('DRR', '__init__'), ('DRR', 'put'), ('DRR', 'run'), ('DRR', 'serve'), ('RR', '__init__'), ('RR', 'run'),
                              ('WRR', '__init__'), ('WRR', 'run'), ('MultiQueueScheduler', 'put'),
                              ('Scheduler', 'send_packet'), ('Scheduler', 'add_packet_to_queue'), ('Scheduler', 'total_packets'),
                              ('MultiQueueScheduler', '__init__'), ('Scheduler', '__init__')])
    elements.class_constants(ctx, 'C15', {('DRR', 'MIN_QUANTUM'): '1500'})
    elements.send_packet_awaited(ctx, 'C15', only=('DRR', 'RR', 'WRR', 'MultiQueueScheduler', 'Scheduler'))
    elements.departure_bookkeeping_atomic(ctx, 'C15', only=('DRR', 'RR', 'WRR', 'MultiQueueScheduler', 'Scheduler'))
    keydomains.check(ctx, 'C15', only=('DRR', 'RR', 'WRR', 'MultiQueueScheduler', 'Scheduler'))
    elements.class_method_sets(ctx, 'C15', only=('DRR', 'RR', 'WRR', 'MultiQueueScheduler', 'Scheduler'))
    deps.element_layers(ctx, 'C15')
    return ('Static: DRR.__init__ (quantum 1500*w/min w, zero credit, declaration order), DRR.run (credit += quantum once '
            'per visit iff backlogged, send while the credit covers the head, debit, forget credit when the class empties, '
            'park an unaffordable head under its class), RR.run (one packet per visit), WRR.run (up to weight, queue '
            're-tested before each send) compared with reference tables. The long-run fairness bound follows by the DRR '
            'lemma and is not mechanised.')
