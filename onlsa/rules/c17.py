"""C17 - TCP sends only inside its window and adapts it by the Reno/CUBIC rules"""
from . import tcp as T, elements, deps

def check(ctx):
    T.run_tables(ctx, 'C17', [('CongestionControl', '__init__'), ('CongestionControl', 'timer_expired'),
                              ('CongestionControl', 'dupack_over'), ('CongestionControl', 'consecutive_dupacks_received'),
                              ('CongestionControl', 'more_dupacks_received'), ('TCPReno', 'ack_received'),
                              ('TCPCubic', '__init__'), ('TCPCubic', 'cubic_reset'), ('TCPCubic', 'timer_expired'),
                              ('TCPCubic', 'cubic_update'), ('TCPCubic', 'cubic_tcp_friendliness'),
                              ('TCPCubic', 'ack_received'),
                              ('TCPPacketGenerator', '__init__'), ('TCPPacketGenerator', 'run'),
                              ('TCPPacketGenerator', 'timeout_callback'), ('TCPPacketGenerator', 'put'),
                              ('TCPPacketGenerator', 'resend_packet')])
    elements.cwnd_writers(ctx, 'C17')
    elements.class_method_sets(ctx, 'C17', only=('CongestionControl', 'TCPReno', 'TCPCubic', 'TCPPacketGenerator'))
    deps.element_layers(ctx, 'C17')
    return ('Static: the send guard next_seq + MSS <= min(buffered, last_ack + cwnd), the Reno/CUBIC hooks, the ACK '
            'dispatch in the sender\'s put (duplicate counting, dupack_over iff fast recovery was entered, third duplicate, '
            'further duplicates, new ACK with the Jacobson/Karels estimator: gains 1/8 and 1/4, RTO = srtt + 4 rttvar) and '
            'timeout_callback (cwnd rule, retransmit, RTO doubled, timer re-armed) compared with reference tables; cwnd and '
            'ssthresh are written only by the congestion-control hooks. The CUBIC window function itself has no reference '
            'formula in the property; its structure only is checked.')
