"""C07 - containers and stores are bounded, conservative, ordered, never strand a request"""
from . import resources as R, whomay, guards, deps

def check(ctx):
    R.run_tables(ctx, 'C07', [
        ('Container', '__init__'), ('Container', '_do_put'), ('Container', '_do_get'), ('Container', 'level'),
        ('ContainerPut', '__init__'), ('ContainerGet', '__init__'),
        ('Store', '__init__'), ('Store', '_do_put'), ('Store', '_do_get'), ('Store', 'size'), ('StorePut', '__init__'),
        ('PriorityStore', '_do_put'), ('PriorityStore', '_do_get'), ('PriorityItem', '__lt__'),
        ('FilterStore', '_do_get'), ('FilterStoreGet', '__init__'),
        ('BaseResource', '__init__'), ('BaseResource', '_trigger_put'), ('BaseResource', '_trigger_get'),
        ('Put', '__init__'), ('Get', '__init__'), ('Put', 'cancel'), ('Get', 'cancel'), ('Put', '__exit__'), ('Get', '__exit__'),
    ])
    R.class_shapes(ctx, 'C07', ['Put', 'Get', 'BaseResource', 'Container', 'ContainerPut', 'ContainerGet', 'Store',
                                'StorePut', 'StoreGet', 'FilterStoreGet', 'PriorityStore', 'FilterStore', 'PriorityItem'])
    whomay.check_writers(ctx, 'C07.W.level', '_level', {
        'Container.__init__': 'initial level', 'Container._do_put': 'granted put', 'Container._do_get': 'granted get'}, 3,
        'the container level changes only by granted puts and gets')
    whomay.items_writers(ctx, 'C07')
    whomay.queue_writers(ctx, 'C07')
    whomay.heap_imports(ctx, 'C07')
    guards.absorbed_put_refused(ctx, 'C07')
    guards.stored_level_tested(ctx, 'C07')
    guards.infinite_source_put(ctx, 'C07')
    guards.nan_refused(ctx, 'C07', [('ContainerPut', '__init__', 'amount'), ('ContainerGet', '__init__', 'amount'),
                                    ('Container', '__init__', 'capacity'), ('Container', '__init__', 'init')],
                       'a NaN level or amount makes every later guard False: the level leaves [0, capacity] and requests are stranded')
    deps.kernel(ctx, 'C07')
    return ('Static: Container guards (level + amount <= capacity, amount <= level) and constructor bounds, Store '
            '(append / pop(0), len < capacity), PriorityStore (heappush / heappop on the same list), FilterStore (first '
            'match, never blocks the scan), the shared scan loops, request constructors and cancel-with-rescan compared '
            'with reference tables; who-may scans for _level, items and the request queues.')
