"""Class-level protocol shape, for every property: the special methods, class decorators, metaclass keywords and method
decorators of every class the property's rules consulted (and of their ancestors in the repository).

The path tables compare the bodies of anchored methods; they cannot see a change that leaves every body alone and
re-defines what the *generic operations* used in those bodies mean for the objects that flow through them: `if self.out:`
(truthiness: `__bool__` / `__len__`), `queue.remove(x)` / `x in users` / `a != b` (`__eq__`, `__hash__`), sorting and heaps
(`__lt__` ..), attribute access (`__getattr__`, descriptors), `a | b` on events (`__or__` in a subclass), copying
(`__copy__`), a caching / wrapping decorator on a method, `@dataclass(order=True)`, `@total_ordering`, a metaclass.
The rule is a frozen table: today's tree defines exactly the special methods listed in PROTOCOL (ten classes), uses the
class decorators in CLASS_DECORATORS and only the method decorators in METHOD_DECORATORS. Anything else in a consulted class
is reported with the class, the name and the operation whose meaning it changes.
"""
import ast

# special methods that change the meaning of a generic operation on instances (not: __init__, __repr__, __str__, __doc__,
# __slots__, __class_getitem__, __call__ - a new callable / printable object changes no operation the library applies)
SEMANTIC = {
    '__bool__': 'truthiness tests (`if self.out:`, `if port:`, `while queue:`)',
    '__len__': 'truthiness tests and len()',
    '__eq__': '==, !=, `in`, list.remove / index, dict and set membership',
    '__ne__': '!=',
    '__hash__': 'dict / set membership',
    '__lt__': 'sorting, heaps, min / max', '__le__': 'comparisons', '__gt__': 'comparisons', '__ge__': 'comparisons',
    '__getattr__': 'attribute lookup', '__getattribute__': 'attribute lookup', '__setattr__': 'attribute stores',
    '__delattr__': 'attribute deletion',
    '__iter__': 'iteration and unpacking', '__next__': 'iteration', '__contains__': '`in`',
    '__getitem__': 'subscription and legacy iteration', '__setitem__': 'item stores', '__delitem__': 'item deletion',
    '__new__': 'construction', '__init_subclass__': 'subclass creation', '__set_name__': 'descriptor binding',
    '__get__': 'descriptor lookup', '__set__': 'descriptor stores', '__delete__': 'descriptor deletion',
    '__and__': '`&` (condition building)', '__or__': '`|` (condition building)', '__rand__': '`&`', '__ror__': '`|`',
    '__copy__': 'copy.copy (splitters)', '__deepcopy__': 'copy.deepcopy', '__reduce__': 'copy / pickle',
    '__reduce_ex__': 'copy / pickle',
    '__enter__': 'with-statement', '__exit__': 'with-statement (release / cancel on exit)', '__del__': 'finalisation',
    '__index__': 'use as an index', '__int__': 'int()', '__float__': 'float()',
    '__add__': '+', '__radd__': '+ / sum()', '__sub__': '-', '__mul__': '*', '__neg__': 'unary -',
    '__post_init__': 'dataclass construction', '__instancecheck__': 'isinstance', '__subclasscheck__': 'issubclass',
}

# confirmed by reading, one line of reason each
PROTOCOL = {
    'Packet': {'__copy__'},                     # splitters hand a copy with its own header dicts to the second output
    'BoundClass': {'__get__'},                  # binds request classes to the resource instance
    'Event': {'__and__', '__or__'},             # condition building
    'ConditionValue': {'__getitem__', '__contains__', '__eq__', '__iter__'},   # dict-like view of a condition's result
    'Put': {'__enter__', '__exit__'},           # with-form of a request: cancel on exit
    'Get': {'__enter__', '__exit__'},
    'Request': {'__exit__'},                    # with-form of a resource request: release on exit
    'PriorityItem': {'__lt__'},                 # heap order by priority only
}
CLASS_DECORATORS = {
    'Flow': ['dataclass'],                      # two classes of that name (onl/flow/flow.py, tcp_generator.py), both plain
}
# managed attributes: a setter (or deleter) turns every `x.name = v` in the anchored bodies into a call
SETTERS = {('Device', 'element_id'), ('OutMixIn', 'out'), ('Event', 'defused'), ('FIBDemux', 'fib')}
FLOAT_FIELDS = {'size', 'time', 'now', 'delay', 'rate'}
METHOD_DECORATORS = {'property', 'abstractmethod', 'staticmethod', 'classmethod'}   # plus `<property>.setter`


def _special_names(c):
    """special names a class body binds: defs and class-level assignments (`__hash__ = None`), not under TYPE_CHECKING"""
    out = {}

    def walk(body):
        for s in body:
            if isinstance(s, (ast.FunctionDef, ast.AsyncFunctionDef)):
                out.setdefault(s.name, s.lineno)
            elif isinstance(s, ast.Assign):
                for t in s.targets:
                    if isinstance(t, ast.Name):
                        out.setdefault(t.id, s.lineno)
            elif isinstance(s, ast.AnnAssign) and isinstance(s.target, ast.Name) and s.value is not None:
                out.setdefault(s.target.id, s.lineno)
            elif isinstance(s, ast.If):
                if ast.unparse(s.test) != 'TYPE_CHECKING':
                    walk(s.body)
                walk(s.orelse)
            elif isinstance(s, (ast.Try,)):
                walk(s.body); walk(s.orelse); walk(s.finalbody)
                for h in s.handlers:
                    walk(h.body)
            elif isinstance(s, ast.With):
                walk(s.body)
    walk(c.node.body)
    return {k: v for k, v in out.items() if k in SEMANTIC}


def _body(f):
    b = list(f.node.body)
    if b and isinstance(b[0], ast.Expr) and isinstance(b[0].value, ast.Constant) and isinstance(b[0].value.value, str):
        b = b[1:]
    return b


def _trivial_pair(c, name):
    """`name` is a property that only stores into / returns one private field: the same program as a plain attribute"""
    g, st = c.methods.get(name), c.methods.get(name + '.setter')
    if g is None or st is None or c.methods.get(name + '.deleter') is not None:
        return False
    gb, sb = _body(g), _body(st)
    if len(gb) != 1 or len(sb) != 1 or not isinstance(gb[0], ast.Return) or not isinstance(sb[0], ast.Assign):
        return False
    r, a = gb[0].value, sb[0]
    params = [x.arg for x in st.node.args.args]
    return (isinstance(r, ast.Attribute) and isinstance(r.value, ast.Name) and r.value.id == 'self' and len(a.targets) == 1
            and isinstance(a.targets[0], ast.Attribute) and ast.unparse(a.targets[0]) == ast.unparse(r)
            and isinstance(a.value, ast.Name) and len(params) == 2 and a.value.id == params[1] and r.attr != name)


def protocol(ctx, prop, extra_modules=()):
    """call last in a property's check: the scope is every class of every module the other rules consulted"""
    rule = prop + '.S.protocol'
    mods = set(ctx.consulted) | set(extra_modules)
    scope = []
    for c in ctx.repo.all_classes():
        if c.module.relpath in mods:
            for b in c.mro():
                if b not in scope:
                    scope.append(b)
    n_classes = n_found = 0
    for c in scope:
        n_classes += 1
        construct = '%s::%s' % (c.module.relpath, c.name)
        got = _special_names(c)
        want = PROTOCOL.get(c.name, set())
        n_found += len(set(got) & want)
        extra = sorted(set(got) - want)
        # a special method the class used to define and now inherits from a repository base is still the same protocol
        missing = sorted(m for m in want - set(got) if c.lookup(m) is None and not any(m in _special_names(b) for b in c.mro()[1:]))
        ok = not extra and not missing
        ctx.ob(rule, ok)
        for m in extra:
            ctx.violation(rule, construct, 'defines %s' % m,
                          '%s now defines %s, which changes the meaning of %s for its instances; no reference covers it'
                          % (c.name, m, SEMANTIC[m]), where='%s:%d' % (c.module.relpath, got[m]))
        for m in missing:
            ctx.violation(rule, construct, 'no longer defines %s' % m,
                          '%s no longer defines %s (%s)' % (c.name, m, SEMANTIC[m]), where='%s:%d' % (c.module.relpath, c.node.lineno))
        decs = [ast.unparse(d) for d in c.node.decorator_list]
        wantd = CLASS_DECORATORS.get(c.name, [])
        okd = decs == wantd
        ctx.ob(rule, okd)
        if not okd:
            ctx.violation(rule, construct, 'class decorators %s' % decs,
                          '%s is decorated with %s, expected %s: a class decorator can synthesise __eq__ / __lt__ / __hash__ / __init__'
                          % (c.name, decs, wantd), where='%s:%d' % (c.module.relpath, c.node.lineno))
        kws = [ast.unparse(k) for k in c.node.keywords]
        ctx.ob(rule, not kws)
        if kws:
            ctx.violation(rule, construct, 'class keywords %s' % kws, '%s is created with %s' % (c.name, kws),
                          where='%s:%d' % (c.module.relpath, c.node.lineno))
        for m, f in list(c.methods.items()) + [(k + ' (typed stub)', v) for k, v in c.typed_stubs.items()]:
            for d in f.node.decorator_list:
                ds = ast.unparse(d)
                okm = ds in METHOD_DECORATORS or ds.endswith('.getter') or ds in ('abc.abstractmethod',)
                if ds.endswith('.setter') or ds.endswith('.deleter'):
                    okm = (c.name, ds.rsplit('.', 1)[0]) in SETTERS or _trivial_pair(c, ds.rsplit('.', 1)[0])
                    if not okm:
                        ctx.ob(rule, False)
                        ctx.violation(rule, '%s.%s' % (construct, m), 'managed attribute %s' % ds,
                                      '%s.%s is now a managed attribute (@%s): every store to it in the anchored bodies runs this '
                                      'code, which no reference covers' % (c.name, ds.rsplit('.', 1)[0], ds), where=f.where)
                        continue
                ctx.ob(rule, okm)
                if not okm:
                    ctx.violation(rule, '%s.%s' % (construct, m), 'decorator @%s' % ds,
                                  '%s.%s is wrapped by @%s: the reference tables describe the undecorated body' % (c.name, m, ds),
                                  where=f.where)
        if ok and okd and not kws and c.name in PROTOCOL:
            ctx.sample(rule, construct, 'defines exactly %s' % sorted(want))
    # __repr__ / __str__ / __format__ are on the data path (SP.run prints every packet; messages and keys are built from
    # them): they must be total - no presentation type that raises for a non-integral number
    for c in scope:
        for m in ('__repr__', '__str__', '__format__'):
            f = c.methods.get(m)
            if f is None:
                continue
            bad = []
            for n in ast.walk(f.node):
                if isinstance(n, ast.FormattedValue) and n.format_spec is not None:
                    spec = ''.join(v.value for v in n.format_spec.values if isinstance(v, ast.Constant) and isinstance(v.value, str))
                    # only fields the statements let be non-integral (a packet's size, instants); `{id(self):#x}` is total
                    if spec and spec[-1] in 'dxXobc' and isinstance(n.value, ast.Attribute) and n.value.attr in FLOAT_FIELDS:
                        bad.append((n.lineno, '{%s:%s}' % (ast.unparse(n.value), spec)))
            ctx.ob(rule, not bad)
            for ln, what in bad:
                ctx.violation(rule, '%s::%s.%s' % (c.module.relpath, c.name, m), 'integer-only format %s' % what,
                              '%s.%s formats with %s, which raises for a non-integral value; printing the object is part of '
                              'the data path' % (c.name, m, what), where='%s:%d' % (c.module.relpath, ln))
    # module-level functions of the consulted modules: same decorator rule
    for m in ctx.repo.modules.values():
        if m.relpath in mods:
            for f in m.functions.values():
                for d in f.node.decorator_list:
                    ds = ast.unparse(d)
                    ctx.ob(rule, False)
                    ctx.violation(rule, '%s::%s' % (m.relpath, f.name), 'decorator @%s' % ds,
                                  'function %s is wrapped by @%s' % (f.name, ds), where=f.where)
    ctx.floor(rule, n_classes, 2, 'classes in the consulted modules')
    return n_classes, n_found
