"""Class-level protocol shape, for every property: the special methods, class decorators, metaclass keywords and method
decorators of every class the property's rules consulted (and of their ancestors in the repository).

The path tables compare the bodies of anchored methods; they cannot see a change that leaves every body alone and
re-defines what the *generic operations* used in those bodies mean for the objects that flow through them: `if self.out:`
(truthiness: `__bool__` / `__len__`), `queue.remove(x)` / `x in users` / `a != b` (`__eq__`, `__hash__`), sorting and heaps
(`__lt__` ..), attribute access (`__getattr__`, descriptors), `a | b` on events (`__or__` in a subclass), copying
(`__copy__`), a caching / wrapping decorator on a method, `@dataclass(order=True)`, `@total_ordering`, a metaclass.
The rule is a frozen table: today's tree defines exactly the special methods listed in PROTOCOL (ten classes), uses the
class decorators in CLASS_DECORATORS and only the method decorators in METHOD_DECORATORS. Anything else in a consulted class
is reported with the class, the name and the operation whose meaning it changes.
"""
import ast

# special methods that change the meaning of a generic operation on instances (not: __init__, __repr__, __str__, __doc__,
# __slots__, __class_getitem__, __call__ - a new callable / printable object changes no operation the library applies)
SEMANTIC = {
    '__bool__': 'truthiness tests (`if self.out:`, `if port:`, `while queue:`)',
    '__len__': 'truthiness tests and len()',
    '__eq__': '==, !=, `in`, list.remove / index, dict and set membership',
    '__ne__': '!=',
    '__hash__': 'dict / set membership',
    '__lt__': 'sorting, heaps, min / max', '__le__': 'comparisons', '__gt__': 'comparisons', '__ge__': 'comparisons',
    '__getattr__': 'attribute lookup', '__getattribute__': 'attribute lookup', '__setattr__': 'attribute stores',
    '__delattr__': 'attribute deletion',
    '__iter__': 'iteration and unpacking', '__next__': 'iteration', '__contains__': '`in`',
    '__getitem__': 'subscription and legacy iteration', '__setitem__': 'item stores', '__delitem__': 'item deletion',
    '__new__': 'construction', '__init_subclass__': 'subclass creation', '__set_name__': 'descriptor binding',
    '__get__': 'descriptor lookup', '__set__': 'descriptor stores', '__delete__': 'descriptor deletion',
    '__and__': '`&` (condition building)', '__or__': '`|` (condition building)', '__rand__': '`&`', '__ror__': '`|`',
    '__copy__': 'copy.copy (splitters)', '__deepcopy__': 'copy.deepcopy', '__reduce__': 'copy / pickle',
    '__reduce_ex__': 'copy / pickle',
    '__enter__': 'with-statement', '__exit__': 'with-statement (release / cancel on exit)', '__del__': 'finalisation',
    '__index__': 'use as an index', '__int__': 'int()', '__float__': 'float()',
    '__add__': '+', '__radd__': '+ / sum()', '__sub__': '-', '__mul__': '*', '__neg__': 'unary -',
    '__post_init__': 'dataclass construction', '__instancecheck__': 'isinstance', '__subclasscheck__': 'issubclass',
}

# confirmed by reading, one line of reason each
PROTOCOL = {
    'Packet': {'__copy__'},                     # splitters hand a copy with its own header dicts to the second output
    'BoundClass': {'__get__'},                  # binds request classes to the resource instance
    'Event': {'__and__', '__or__'},             # condition building
    'ConditionValue': {'__getitem__', '__contains__', '__eq__', '__iter__'},   # dict-like view of a condition's result
    'Put': {'__enter__', '__exit__'},           # with-form of a request: cancel on exit
    'Get': {'__enter__', '__exit__'},
    'Request': {'__exit__'},                    # with-form of a resource request: release on exit
    'PriorityItem': {'__lt__'},                 # heap order by priority only
}
CLASS_DECORATORS = {
    'Flow': ['dataclass'],                      # two classes of that name (onl/flow/flow.py, tcp_generator.py), both plain
}
# managed attributes: a setter (or deleter) turns every `x.name = v` in the anchored bodies into a call
SETTERS = {('Device', 'element_id'), ('OutMixIn', 'out'), ('Event', 'defused'), ('FIBDemux', 'fib')}
FLOAT_FIELDS = {'size', 'time', 'now', 'delay', 'rate'}
METHOD_DECORATORS = {'property', 'abstractmethod', 'staticmethod', 'classmethod'}   # plus `<property>.setter`


def _special_names(c):
    """special names a class body binds: defs and class-level assignments (`__hash__ = None`), not under TYPE_CHECKING"""
    out = {}

    def walk(body):
        for s in body:
            if isinstance(s, (ast.FunctionDef, ast.AsyncFunctionDef)):
                out.setdefault(s.name, s.lineno)
            elif isinstance(s, ast.Assign):
                for t in s.targets:
                    if isinstance(t, ast.Name):
                        out.setdefault(t.id, s.lineno)
            elif isinstance(s, ast.AnnAssign) and isinstance(s.target, ast.Name) and s.value is not None:
                out.setdefault(s.target.id, s.lineno)
            elif isinstance(s, ast.If):
                if ast.unparse(s.test) != 'TYPE_CHECKING':
                    walk(s.body)
                walk(s.orelse)
            elif isinstance(s, (ast.Try,)):
                walk(s.body); walk(s.orelse); walk(s.finalbody)
                for h in s.handlers:
                    walk(h.body)
            elif isinstance(s, ast.With):
                walk(s.body)
    walk(c.node.body)
    return {k: v for k, v in out.items() if k in SEMANTIC}


def _body(f):
    b = list(f.node.body)
    if b and isinstance(b[0], ast.Expr) and isinstance(b[0].value, ast.Constant) and isinstance(b[0].value.value, str):
        b = b[1:]
    return b


def _trivial_pair(c, name):
    """`name` is a property that only stores into / returns one private field: the same program as a plain attribute"""
    g, st = c.methods.get(name), c.methods.get(name + '.setter')
    if g is None or st is None or c.methods.get(name + '.deleter') is not None:
        return False
    gb, sb = _body(g), _body(st)
    if len(gb) != 1 or len(sb) != 1 or not isinstance(gb[0], ast.Return) or not isinstance(sb[0], ast.Assign):
        return False
    r, a = gb[0].value, sb[0]
    params = [x.arg for x in st.node.args.args]
    return (isinstance(r, ast.Attribute) and isinstance(r.value, ast.Name) and r.value.id == 'self' and len(a.targets) == 1
            and isinstance(a.targets[0], ast.Attribute) and ast.unparse(a.targets[0]) == ast.unparse(r)
            and isinstance(a.value, ast.Name) and len(params) == 2 and a.value.id == params[1] and r.attr != name)


def _hook_roots(c, hook, depth=0, seen=None):
    """names of the non-private methods, defined anywhere in c's MRO, from which `self.<hook>(..)` is reached (through
    private helpers)"""
    seen = seen if seen is not None else set()
    out = set()
    if depth > 5 or hook in seen:
        return out
    seen.add(hook)
    for b in c.mro():
        for m, g in b.methods.items():
            name = m.split('.')[0]
            if name == hook:
                continue
            for n in ast.walk(g.node):
                if isinstance(n, ast.Call) and isinstance(n.func, ast.Attribute) and n.func.attr == hook \
                        and isinstance(n.func.value, ast.Name) and n.func.value.id == 'self':
                    if name.startswith('_') and not name.startswith('__'):
                        out |= _hook_roots(c, name, depth + 1, seen)
                    else:
                        out.add(m)
                    break
    return out


def protocol(ctx, prop, extra_modules=()):
    """call last in a property's check: the scope is every class of every module the other rules consulted"""
    rule = prop + '.S.protocol'
    mods = set(ctx.consulted) | set(extra_modules)
    scope = []
    for c in ctx.repo.all_classes():
        if c.module.relpath in mods:
            for b in c.mro():
                if b not in scope:
                    scope.append(b)
    n_classes = n_found = 0
    from .. import vocab
    try:
        known = set(vocab.load()['classes'])
    except (OSError, ValueError):
        known = set(c.name for c in scope)
    all_classes = ctx.repo.all_classes()

    def has_table(cn, m):
        from . import kernel, resources, netdev, sched, tcp
        return any(any(k[0] == cn and k[1].split('@')[0] == m for k in S.SPECS) for S in (kernel, resources, netdev, sched, tcp))

    for c in scope:
        n_classes += 1
        construct = '%s::%s' % (c.module.relpath, c.name)
        own = _special_names(c)
        if c.name not in known and any(c in k.mro()[1:] for k in all_classes if k.name in known):
            # a class the change introduced as a base of classes of the confirmed tree (extracted mixin / base): what it
            # defines is judged where it takes effect, in the resolved protocol of each of those classes below
            ctx.ob(rule, True)
            extra, missing, got, want = [], [], own, set()
        else:
            # the protocol the class resolves to through its MRO, against what the confirmed classes of that MRO define
            got, definer = {}, {}
            for b in c.mro():
                for m, ln in _special_names(b).items():
                    if m not in got:
                        got[m], definer[m] = ln, b
            want = set()
            for b in c.mro():
                want |= PROTOCOL.get(b.name, set()) if (b.name in known or b is c) else set()
            n_found += len(set(own) & PROTOCOL.get(c.name, set()))
            extra = sorted(m for m in got if m not in want)
            # a confirmed class (or this one) that defines a special method the table does not list for *it* shadows
            # the definition the confirmed tree resolves to (Condition.__or__ over Event.__or__)
            extra += sorted(m for m in got if m in want and (definer[m].name in known or definer[m] is c)
                            and m not in PROTOCOL.get(definer[m].name, set()))
            # defined by a class the confirmed tree does not have: accepted only where a reference table of this class
            # compares the body that is found through the MRO
            for m in sorted(set(got) & want):
                d = definer[m]
                if d.name not in known and not any(has_table(b.name, m) for b in c.mro() if b.name in known and m in PROTOCOL.get(b.name, set())):
                    extra.append(m)
            missing = sorted(m for m in want if m not in got)
            got = {m: (ln if definer[m] is c else c.node.lineno) for m, ln in got.items()}
        ok = not extra and not missing
        ctx.ob(rule, ok)
        for m in extra:
            ctx.violation(rule, construct, 'defines %s' % m,
                          '%s now defines %s, which changes the meaning of %s for its instances; no reference covers it'
                          % (c.name, m, SEMANTIC[m]), where='%s:%d' % (c.module.relpath, got[m]))
        for m in missing:
            ctx.violation(rule, construct, 'no longer defines %s' % m,
                          '%s no longer defines %s (%s)' % (c.name, m, SEMANTIC[m]), where='%s:%d' % (c.module.relpath, c.node.lineno))
        decs = [ast.unparse(d) for d in c.node.decorator_list]
        wantd = CLASS_DECORATORS.get(c.name, [])
        okd = decs == wantd
        ctx.ob(rule, okd)
        if not okd:
            ctx.violation(rule, construct, 'class decorators %s' % decs,
                          '%s is decorated with %s, expected %s: a class decorator can synthesise __eq__ / __lt__ / __hash__ / __init__'
                          % (c.name, decs, wantd), where='%s:%d' % (c.module.relpath, c.node.lineno))
        kws = [ast.unparse(k) for k in c.node.keywords]
        ctx.ob(rule, not kws)
        if kws:
            ctx.violation(rule, construct, 'class keywords %s' % kws, '%s is created with %s' % (c.name, kws),
                          where='%s:%d' % (c.module.relpath, c.node.lineno))
        for m, f in list(c.methods.items()) + [(k + ' (typed stub)', v) for k, v in c.typed_stubs.items()]:
            for d in f.node.decorator_list:
                ds = ast.unparse(d)
                okm = ds in METHOD_DECORATORS or ds.endswith('.getter') or ds in ('abc.abstractmethod',)
                if ds.endswith('.setter') or ds.endswith('.deleter'):
                    okm = (c.name, ds.rsplit('.', 1)[0]) in SETTERS or _trivial_pair(c, ds.rsplit('.', 1)[0])
                    if not okm:
                        ctx.ob(rule, False)
                        ctx.violation(rule, '%s.%s' % (construct, m), 'managed attribute %s' % ds,
                                      '%s.%s is now a managed attribute (@%s): every store to it in the anchored bodies runs this '
                                      'code, which no reference covers' % (c.name, ds.rsplit('.', 1)[0], ds), where=f.where)
                        continue
                ctx.ob(rule, okm)
                if not okm:
                    ctx.violation(rule, '%s.%s' % (construct, m), 'decorator @%s' % ds,
                                  '%s.%s is wrapped by @%s: the reference tables describe the undecorated body' % (c.name, m, ds),
                                  where=f.where)
        if ok and okd and not kws and c.name in PROTOCOL:
            ctx.sample(rule, construct, 'defines exactly %s' % sorted(want))
    # __repr__ / __str__ / __format__ are on the data path (SP.run prints every packet; messages and keys are built from
    # them): they must be total - no presentation type that raises for a non-integral number
    for c in scope:
        for m in ('__repr__', '__str__', '__format__'):
            f = c.methods.get(m)
            if f is None:
                continue
            bad = []
            for n in ast.walk(f.node):
                if isinstance(n, ast.FormattedValue) and n.format_spec is not None:
                    spec = ''.join(v.value for v in n.format_spec.values if isinstance(v, ast.Constant) and isinstance(v.value, str))
                    # only fields the statements let be non-integral (a packet's size, instants); `{id(self):#x}` is total
                    if spec and spec[-1] in 'dxXobc' and isinstance(n.value, ast.Attribute) and n.value.attr in FLOAT_FIELDS:
                        bad.append((n.lineno, '{%s:%s}' % (ast.unparse(n.value), spec)))
            ctx.ob(rule, not bad)
            for ln, what in bad:
                ctx.violation(rule, '%s::%s.%s' % (c.module.relpath, c.name, m), 'integer-only format %s' % what,
                              '%s.%s formats with %s, which raises for a non-integral value; printing the object is part of '
                              'the data path' % (c.name, m, what), where='%s:%d' % (c.module.relpath, ln))
    # a private method the confirmed tree does not know, defined in a class of the repository so that it shadows a
    # definition in one of its bases (a hook introduced in a base and overridden here): the tables dispatch it in the
    # context they run in - so some table of *this* class must run the method that calls the hook.  An override nobody
    # evaluates (`WFQ._service_time` silently replacing the hook `Scheduler.send_packet` uses) is reported.
    known_names = ctx.repo.known_method_names()
    if known_names is not None:
        scope_set = set(scope)
        ran = ctx.rule_ids()
        for c in all_classes:
            if not any(b in scope_set for b in c.mro()):
                continue
            for m, f in c.methods.items():
                base = m.split('.')[0]
                if not (base.startswith('_') and not base.startswith('__')) or base in known_names:
                    continue
                shadowed = next((b for b in c.mro()[1:] if base in b.methods), None)
                if shadowed is None:
                    continue
                # public methods (of the classes c inherits from, or c itself) through which the hook is reached
                roots = _hook_roots(c, base)
                # only callers this property relies on: those it runs a table for on some class of c's MRO
                mro_names = {b.name for b in c.mro()}
                def _has(cn, r):
                    return any('.T.' in rid and rid.split('.T.')[1].split('@')[0] == '%s.%s' % (cn, r) for rid in ran)
                roots = {r for r in roots if any(_has(cn, r) for cn in mro_names)}
                if not roots:
                    continue
                covered = [r for r in roots if any(rid.split('@')[0].endswith('.T.%s.%s' % (c.name, r)) or
                                                    ('.T.' in rid and rid.split('.T.')[1].split('@')[0].split('.')[-1] == r and rid.endswith('@' + c.name))
                                                    for rid in ran)]
                ok = len(covered) == len(roots)
                ctx.ob(rule, ok)
                if not ok:
                    missing_r = sorted(set(roots) - set(covered))
                    ctx.violation(rule, '%s::%s.%s' % (c.module.relpath, c.name, m), 'hook override not evaluated',
                                  '%s.%s overrides %s.%s, which %s call%s; no reference table of this property evaluates %s for %s, so what '
                                  'instances of %s now do there is not covered' % (
                                      c.name, base, shadowed.name, base, ', '.join(missing_r), 's' if len(missing_r) == 1 else '',
                                      ', '.join(missing_r), c.name, c.name), where=f.where)
    # module-level functions of the consulted modules: same decorator rule
    for m in ctx.repo.modules.values():
        if m.relpath in mods:
            for f in m.functions.values():
                for d in f.node.decorator_list:
                    ds = ast.unparse(d)
                    ctx.ob(rule, False)
                    ctx.violation(rule, '%s::%s' % (m.relpath, f.name), 'decorator @%s' % ds,
                                  'function %s is wrapped by @%s' % (f.name, ds), where=f.where)
    ctx.floor(rule, n_classes, 2, 'classes in the consulted modules')
    return n_classes, n_found
