"""Dependency layers: the reference tables of the code a property's own mechanism *runs on*.

A property about schedulers is decided in the scheduler classes - but what a scheduler does at a coincidence is the
kernel's doing (a completion event scheduled URGENT instead of NORMAL lets SP's rescan overtake an arrival of the same
instant), what its queues do is the Store's, and what `if self.out:` or `packet.size` mean is decided in Packet / Device.
A change there leaves every anchored body byte-identical.  Each property therefore also runs the tables of the layers
below it; the rule ids are the ordinary `<P>.T.<Class>.<method>` (a table the property already ran itself, in any view,
is not run a second time).  These tables are the same ones the kernel properties C01..C07 use: nothing new can alarm on
a tree on which those are silent.
"""
from . import kernel as K, resources as R, netdev as N

KERNEL = [k for k in K.SPECS if '@' not in k[1] and not k[0].startswith('Realtime')]
REALTIME = [k for k in K.SPECS if k[0].startswith('Realtime')]
STORES = [('BaseResource', '__init__'), ('BaseResource', '_trigger_put'), ('BaseResource', '_trigger_get'),
          ('Put', '__init__'), ('Get', '__init__'), ('Store', '__init__'), ('Store', '_do_put@unbounded'), ('Store', '_do_get'),
          ('Store', 'size'), ('PriorityStore', '_do_put@unbounded'), ('PriorityStore', '_do_get'), ('PriorityItem', '__lt__'),
          ('StorePut', '__init__')]
DEVICE = [('Packet', '__init__'), ('Device', 'element_id'), ('Device', 'element_id.setter'), ('OutMixIn', 'out'),
          ('OutMixIn', 'out.setter')]


def _done(ctx, prop, c, m):
    base = m.split('@')[0]
    for rid in ctx.rule_ids():
        if rid.startswith('%s.T.%s.' % (prop, c)):
            rest = rid[len('%s.T.%s.' % (prop, c)):]
            if rest.split('@')[0] == base:
                return True
    return False


def layer(ctx, prop, mod, keys):
    todo = [(c, m) for (c, m) in keys if (c, m) in mod.SPECS and not _done(ctx, prop, c, m)]
    mod.run_tables(ctx, prop, todo)
    return len(todo)


def kernel(ctx, prop, realtime=False):
    n = layer(ctx, prop, K, KERNEL)
    if realtime:
        n += layer(ctx, prop, K, REALTIME)
    return n


def stores(ctx, prop):
    return layer(ctx, prop, R, STORES)


def device(ctx, prop):
    return layer(ctx, prop, N, DEVICE)


def element_layers(ctx, prop):
    """everything a network element runs on: kernel, element stores, packet / device base"""
    return kernel(ctx, prop) + stores(ctx, prop) + device(ctx, prop)
