"""Reference tables for onl/sim/resources (C06, C07; also the FIFO/priority
store guarantees that C08-C15 lean on)."""
from ..compare import View
from .kernel import KVIEW

SPECS = {}


def spec(cls, meth, what='', view=None, opts=None):
    def deco(src):
        SPECS[(cls, meth)] = dict(cls=cls, meth=meth, src=src, what=what, view=view, opts=opts)
        return src
    return deco


# ------------------------------------------------------------------ base.py

spec('Put', '__init__', what='enqueue self, subscribe the opposite scan on own processing, then scan the put queue')('''
def __init__(self, resource):
    super().__init__(resource._env)
    self.resource = resource
    self.proc = self.env.active_process
    resource.put_queue.append(self)
    self.callbacks.append(resource._trigger_get)
    resource._trigger_put(None)
''')

spec('Get', '__init__', what='enqueue self, subscribe the opposite scan on own processing, then scan the get queue')('''
def __init__(self, resource):
    super().__init__(resource._env)
    self.resource = resource
    self.proc = self.env.active_process
    resource.get_queue.append(self)
    self.callbacks.append(resource._trigger_put)
    resource._trigger_get(None)
''')

spec('Put', 'cancel', what='a pending request leaves the queue and the queue is rescanned; a triggered one is untouched')('''
def cancel(self):
    if not self.triggered:
        self.resource.put_queue.remove(self)
        self.resource._trigger_put(None)
''')

spec('Get', 'cancel', what='a pending request leaves the queue and the queue is rescanned; a triggered one is untouched')('''
def cancel(self):
    if not self.triggered:
        self.resource.get_queue.remove(self)
        self.resource._trigger_get(None)
''')

spec('Put', '__exit__', what='leaving the with-block cancels the request')('''
def __exit__(self, exc_type, exc_value, traceback):
    self.cancel()
    return None
''')

spec('Get', '__exit__', what='leaving the with-block cancels the request')('''
def __exit__(self, exc_type, exc_value, traceback):
    self.cancel()
    return None
''')

spec('Put', '__enter__')('''
def __enter__(self):
    return self
''')

spec('Get', '__enter__')('''
def __enter__(self):
    return self
''')

spec('BaseResource', '__init__', what='queues are instances of the class-level queue types')('''
def __init__(self, env, capacity):
    self._env = env
    self._capacity = capacity
    self.put_queue = self.PutQueue()
    self.get_queue = self.GetQueue()
    BoundClass.bind_early(self)
''')

spec('BaseResource', 'capacity')('''
def capacity(self):
    return self._capacity
''')

spec('BaseResource', '_trigger_put', what='scan from the head; a granted request is popped at its index, an ungranted one '
                                          'is stepped over; stop at the first request that cannot proceed')('''
def _trigger_put(self, get_event):
    idx = 0
    while idx < len(self.put_queue):
        put_event = self.put_queue[idx]
        proceed = self._do_put(put_event)
        if not put_event.triggered:
            idx += 1
        elif self.put_queue.pop(idx) != put_event:
            raise RuntimeError()
        if not proceed:
            break
''')

spec('BaseResource', '_trigger_get', what='scan from the head; a granted request is popped at its index, an ungranted one '
                                          'is stepped over; stop at the first request that cannot proceed')('''
def _trigger_get(self, put_event):
    idx = 0
    while idx < len(self.get_queue):
        get_event = self.get_queue[idx]
        proceed = self._do_get(get_event)
        if not get_event.triggered:
            idx += 1
        elif self.get_queue.pop(idx) != get_event:
            raise RuntimeError()
        if not proceed:
            break
''')

# ------------------------------------------------------------------ resource.py

spec('Request', '__exit__', what='cancel, then release unless the generator is being torn down')('''
def __exit__(self, exc_type, exc_value, traceback):
    super().__exit__(exc_type, exc_value, traceback)
    if exc_type is not GeneratorExit:
        self.resource.release(self)
    return None
''')

spec('Release', '__init__', what='the request to release is stored before the release is enqueued and scanned')('''
def __init__(self, resource, request):
    self.request = request
    super().__init__(resource)
''')

spec('Resource', '__init__', what='positive capacity; no users; queue alias is the put queue')('''
def __init__(self, env, capacity=1):
    if capacity <= 0:
        raise ValueError()
    super().__init__(env, capacity)
    self._users = []
    self._queue = self.put_queue
''')

spec('Resource', 'count')('''
def count(self):
    return len(self._users)
''')

spec('Resource', 'users')('''
def users(self):
    return self._users
''')

spec('Resource', 'queue')('''
def queue(self):
    return self._queue
''')

spec('Resource', '_do_put', what='grant iff one more user still fits into capacity (also a fractional one): append user, stamp usage_since, succeed')('''
def _do_put(self, event):
    if len(self._users) + 1 <= self.capacity:
        self._users.append(event)
        event.usage_since = self._env.now
        event.succeed()
        return True
    else:
        return False
''')

spec('Resource', '_do_get', what='release removes the user if present (harmless otherwise), always succeeds, never blocks')('''
def _do_get(self, event):
    try:
        self._users.remove(event.request)
    except ValueError:
        pass
    event.succeed()
    return True
''')

spec('PriorityRequest', '__init__', what='key = (priority, request time, not preempt), all set before the request is enqueued')('''
def __init__(self, resource, priority=0, preempt=True):
    self.priority = priority
    self.preempt = preempt
    self.time = resource._env.now
    self.key = (self.priority, self.time, not self.preempt)
    super().__init__(resource)
''')

spec('SortedQueue', '__init__')('''
def __init__(self, maxlen=None):
    super().__init__()
    self.maxlen = maxlen
''')

spec('SortedQueue', 'append', what='append at the tail then stable sort by key: arrival order among equal keys')('''
def append(self, item):
    if self.maxlen is not None and len(self) >= self.maxlen:
        raise RuntimeError()
    super().append(item)
    super().sort(key=lambda e: e.key)
''')

spec('PriorityResource', '__init__')('''
def __init__(self, env, capacity=1):
    super().__init__(env, capacity)
''')

spec('Preempted', '__init__')('''
def __init__(self, by, usage_since, resource):
    self.by = by
    self.usage_since = usage_since
    self.resource = resource
''')

spec('PreemptiveResource', '_do_put', what='when full and the request preempts: victim = worst-ranked user by the full key; '
                                          'evict iff its key is strictly worse; then the ordinary grant test')('''
def _do_put(self, event):
    if self.users and len(self.users) + 1 > self.capacity and event.preempt:
        preempt = sorted(self.users, key=lambda e: e.key)[-1]
        if preempt.key > event.key:
            self.users.remove(preempt)
            preempt.proc.interrupt(Preempted(by=event.proc, usage_since=preempt.usage_since, resource=self))
    return super()._do_put(event)
''')

# ------------------------------------------------------------------ container.py

spec('ContainerPut', '__init__', what='non-positive and non-finite amounts refused before the request is enqueued')('''
def __init__(self, container, amount):
    if not 0 < amount < float('inf'):
        raise ValueError()
    self.amount = amount
    super().__init__(container)
''')

spec('ContainerGet', '__init__', what='non-positive and non-finite amounts refused before the request is enqueued')('''
def __init__(self, container, amount):
    if not 0 < amount < float('inf'):
        raise ValueError()
    self.amount = amount
    super().__init__(container)
''')

spec('Container', '__init__', what='capacity > 0 and 0 <= init <= capacity')('''
def __init__(self, env, capacity=float('inf'), init=0):
    if capacity <= 0:
        raise ValueError()
    if init < 0:
        raise ValueError()
    if init > capacity:
        raise ValueError()
    super().__init__(env, capacity)
    self._level = init
''')

spec('Container', 'level')('''
def level(self):
    return self._level
''')

spec('Container', '_do_put', what='grant iff the amount fits (tested both as capacity - level >= amount and on the sum that is stored); level += amount')('''
def _do_put(self, event):
    if self._capacity - self._level >= event.amount and self._level + event.amount <= self._capacity:
        self._level = self._level + event.amount
        event.succeed()
        return True
    else:
        return False
''')

spec('Container', '_do_get', what='grant iff amount <= level; level -= amount')('''
def _do_get(self, event):
    if event.amount <= self._level:
        self._level = self._level - event.amount
        event.succeed()
        return True
    else:
        return False
''')

# ------------------------------------------------------------------ store.py

spec('StorePut', '__init__', what='item stored on the request before it is enqueued')('''
def __init__(self, store, item):
    self.item = item
    super().__init__(store)
''')

spec('FilterStoreGet', '__init__')('''
def __init__(self, resource, filter=lambda item: True):
    self.filter = filter
    super().__init__(resource)
''')

spec('Store', '__init__', what='positive capacity; empty item list')('''
def __init__(self, env, capacity=float('inf')):
    if capacity <= 0:
        raise ValueError()
    super().__init__(env, capacity)
    self.items = []
''')

spec('Store', 'size')('''
def size(self):
    return len(self.items)
''')

spec('Store', '_do_put', what='accept iff fewer than capacity items; insert at the tail')('''
def _do_put(self, event):
    if len(self.items) + 1 <= self._capacity:
        self.items.append(event.item)
        event.succeed()
        return True
    else:
        return False
''')

spec('Store', '_do_get', what='deliver iff non-empty; remove from the head')('''
def _do_get(self, event):
    if self.items:
        event.succeed(self.items.pop(0))
        return True
    else:
        return False
''')

spec('PriorityItem', '__lt__', what='items ordered by priority only (the payload is never compared)')('''
def __lt__(self, other):
    return self.priority < other.priority
''')

spec('PriorityStore', '_do_put', what='accept iff fewer than capacity items; heap insert')('''
def _do_put(self, event):
    if len(self.items) + 1 <= self._capacity:
        heappush(self.items, event.item)
        event.succeed()
        return True
    else:
        return False
''')

spec('PriorityStore', '_do_get', what='deliver iff non-empty; heap pop (smallest first)')('''
def _do_get(self, event):
    if self.items:
        event.succeed(heappop(self.items))
        return True
    else:
        return False
''')

spec('FilterStore', '_do_get', what='first item in insertion order that satisfies the filter is removed by position (not by equality), at most one, scan never blocked')('''
def _do_get(self, event):
    for i, item in enumerate(self.items):
        if event.filter(item):
            del self.items[i]
            event.succeed(item)
            break
    return True
''')


# what the network elements need from the kernel stores: they are created unbounded, so only the
# ends (tail insert / head removal / heap order) matter; the cell "exactly full" is left open
spec('Store', '_do_put@unbounded', what='unbounded use: accepted items are inserted at the tail')('''
def _do_put(self, event):
    if len(self.items) + 1 <= self._capacity:
        self.items.append(event.item)
        event.succeed()
        return True
    elif len(self.items) <= self._capacity:
        DONTCARE()
    else:
        return False
''')

spec('PriorityStore', '_do_put@unbounded', what='unbounded use: accepted items are heap-inserted')('''
def _do_put(self, event):
    if len(self.items) + 1 <= self._capacity:
        heappush(self.items, event.item)
        event.succeed()
        return True
    elif len(self.items) <= self._capacity:
        DONTCARE()
    else:
        return False
''')


def run_tables(ctx, prefix, keys):
    for (c, m) in keys:
        d = SPECS[(c, m)]
        ctx.table('%s.T.%s.%s' % (prefix, c, m), c, m.split('@')[0], d['src'], d['view'] or KVIEW, d['opts'], own=True,
                  what=d['what'] or '%s.%s as the property requires' % (c, m))


CLASS_ATTRS = {
    # class -> {attribute: canonical expected value}
    'BaseResource': {'PutQueue': 'list', 'GetQueue': 'list', 'put': 'BoundClass(Put)', 'get': 'BoundClass(Get)'},
    'Resource': {'request': 'BoundClass(Request)', 'release': 'BoundClass(Release)'},
    'PriorityResource': {'PutQueue': 'SortedQueue', 'GetQueue': 'list', 'request': 'BoundClass(PriorityRequest)',
                         'release': 'BoundClass(Release)'},
    'Container': {'put': 'BoundClass(ContainerPut)', 'get': 'BoundClass(ContainerGet)'},
    'Store': {'put': 'BoundClass(StorePut)', 'get': 'BoundClass(StoreGet)'},
    'FilterStore': {'get': 'BoundClass(FilterStoreGet)'},
}
BASES = {
    'Put': ['Event', 'ContextManager', 'Generic'], 'Get': ['Event', 'ContextManager', 'Generic'],
    'Request': ['Put'], 'Release': ['Get'], 'PriorityRequest': ['Request'], 'Resource': ['BaseResource'],
    'PriorityResource': ['Resource'], 'PreemptiveResource': ['PriorityResource'], 'SortedQueue': ['list'],
    'Container': ['BaseResource'], 'ContainerPut': ['Put'], 'ContainerGet': ['Get'], 'Store': ['BaseResource'],
    'StorePut': ['Put'], 'StoreGet': ['Get'], 'FilterStoreGet': ['StoreGet'], 'PriorityStore': ['Store'],
    'FilterStore': ['Store'], 'PriorityItem': ['NamedTuple'],
}
# methods each class may define (an unexpected override changes dispatch silently)
OWN_METHODS = {
    'Put': {'__init__', '__enter__', '__exit__', 'cancel'}, 'Get': {'__init__', '__enter__', '__exit__', 'cancel'},
    'Request': {'__exit__'}, 'Release': {'__init__'}, 'PriorityRequest': {'__init__'},
    'BaseResource': {'__init__', 'capacity', '_do_put', '_do_get', '_trigger_put', '_trigger_get'},
    'Resource': {'__init__', 'count', 'users', 'queue', '_do_put', '_do_get'},
    'PriorityResource': {'__init__'}, 'PreemptiveResource': {'_do_put'}, 'SortedQueue': {'__init__', 'append'},
    'Container': {'__init__', 'level', '_do_put', '_do_get'}, 'ContainerPut': {'__init__'}, 'ContainerGet': {'__init__'},
    'Store': {'__init__', 'size', '_do_put', '_do_get'}, 'StorePut': {'__init__'}, 'StoreGet': set(),
    'FilterStoreGet': {'__init__'}, 'PriorityStore': {'_do_put', '_do_get'}, 'FilterStore': {'_do_get'},
    'PriorityItem': {'__lt__'}, 'Preempted': {'__init__'},
}


def _flat_bases(ctx, c, depth=0):
    """direct bases by name; a base the confirmed tree does not have (an extracted private mixin / base class) is
    replaced by its own bases: what it contributes is judged by the tables, which run in the subclass's context"""
    from .. import vocab
    try:
        known = set(vocab.load()['classes'])
    except (OSError, ValueError):
        known = None
    out = []
    for raw, b in zip(c.base_names, list(c.bases) + [None] * (len(c.base_names) - len(c.bases))):
        name = raw.split('[')[0].split('.')[-1]
        bi = next((x for x in c.bases if x.name == name), None)
        if known is not None and bi is not None and name not in known and depth < 4:
            for n in _flat_bases(ctx, bi, depth + 1):
                if n not in out:
                    out.append(n)
        elif name not in out:
            out.append(name)
    return out


def class_shapes(ctx, prefix, classes):
    """class-level facts: bases, BoundClass bindings / queue types, the set of overriding methods,
    and agreement of the typed stubs under TYPE_CHECKING with the run-time BoundClass arms"""
    import ast
    from ..terms import term
    rule = prefix + '.S.classes'
    for cn in classes:
        c = ctx.repo.find_class(cn)
        construct = '%s::%s' % (c.module.relpath, cn)
        ctx.consulted.add(c.module.relpath)
        if cn in BASES:
            got = _flat_bases(ctx, c)
            ok = got == BASES[cn]
            ctx.ob(rule, ok)
            if not ok:
                ctx.violation(rule, construct, 'bases %s' % got, '%s derives from %s, expected %s' % (cn, got, BASES[cn]),
                              where='%s:%d' % (c.module.relpath, c.node.lineno))
            else:
                ctx.sample(rule, construct, 'bases are %s' % got)
        for a, want in CLASS_ATTRS.get(cn, {}).items():
            r_ = c.lookup_attr(a)        # also when the class inherits the binding instead of repeating it
            v = r_[1] if r_ else None
            got = term(v) if v is not None else None
            ok = got == want
            ctx.ob(rule, ok)
            if not ok:
                ctx.violation(rule, construct, '%s = %s' % (a, got), '%s.%s is %s, expected %s' % (cn, a, got, want),
                              where='%s:%d' % (c.module.relpath, c.node.lineno))
            # the typed stub must construct the same class
            if want.startswith('BoundClass(') and a in c.typed_stubs:
                stub = c.typed_stubs[a]
                ret = [n for n in ast.walk(stub.node) if isinstance(n, ast.Return) and n.value is not None]
                tgt = want[len('BoundClass('):-1]
                ok2 = len(ret) == 1 and isinstance(ret[0].value, ast.Call) and term(ret[0].value.func) == tgt
                ctx.ob(rule, ok2)
                if not ok2:
                    ctx.violation(rule, construct, 'typed stub %s' % a, 'typed stub %s.%s does not construct %s' % (cn, a, tgt), where=stub.where)
        extra = set(a for a in c.attrs if a not in CLASS_ATTRS.get(cn, {}) and a in ('PutQueue', 'GetQueue', 'put', 'get', 'request', 'release'))
        for a in extra:
            ctx.ob(rule, False)
            ctx.violation(rule, construct, 'unexpected class attribute %s' % a, '%s rebinds %s = %s' % (cn, a, term(c.attrs[a])),
                          where='%s:%d' % (c.module.relpath, c.node.lineno))
        if cn in OWN_METHODS:
            got = set(m for m in c.methods if not m.endswith('.setter'))
            # a new private helper is harmless (the tables see through it); what matters is a method
            # that shadows inherited behaviour or one of the dispatch names
            dispatch = {'_do_put', '_do_get', '_trigger_put', '_trigger_get', 'put', 'get', 'request', 'release', 'cancel',
                        '__enter__', '__exit__', 'append', 'sort', 'pop', 'remove', '__lt__', '__eq__', '__le__', '__gt__',
                        '__ge__', '__init__', '__new__', '__getattribute__', '__getattr__', '__setattr__'}
            inherited = set()
            for b in c.mro()[1:]:
                inherited |= set(b.methods)
            known_inherited = set()
            for b in c.mro()[1:]:
                known_inherited |= (set(b.methods) & OWN_METHODS.get(b.name, set(b.methods) if b.name not in OWN_METHODS else set()))
            # shadowing a dispatch name, or a method of a base that the tables know, is what matters; a new private hook
            # introduced in a base and overridden here is seen through by the tables (they run in this class's context)
            unexpected = set(m for m in got - OWN_METHODS[cn] if m in dispatch or m in known_inherited)
            # a method this class used to define and now inherits is still covered (its table runs on what is inherited)
            missing = set(m for m in OWN_METHODS[cn] - got if c.lookup(m) is None)
            ok = not unexpected and not missing
            ctx.ob(rule, ok)
            if unexpected:
                ctx.violation(rule, construct, 'unexpected methods %s' % sorted(unexpected),
                              '%s defines %s: an override not covered by any reference table' % (cn, sorted(unexpected)),
                              where='%s:%d' % (c.module.relpath, c.node.lineno))
            if missing:
                ctx.violation(rule, construct, 'missing methods %s' % sorted(missing),
                              '%s no longer defines %s' % (cn, sorted(missing)), where='%s:%d' % (c.module.relpath, c.node.lineno))
