"""Reference tables for onl/scheduler: C12-C15 (and C08 for the schedulers)."""
from ..compare import View

SVIEW = View(ignore_calls=('print', 'dprint'))
SPECS = {}


def spec(cls, meth, what='', view=None, opts=None, ctx=None):
    def deco(src):
        SPECS[(cls, meth, ctx)] = dict(cls=cls, meth=meth, src=src, what=what, view=view, opts=opts, ctx=ctx)
        return src
    return deco


# ------------------------------------------------------------------ base.py

spec('Scheduler', '__init__', what='per-flow counters start at zero for every flow; nothing in service')('''
def __init__(self, env, rate, flow2class=lambda fid: fid, debug=False):
    self.env = env
    self.rate = rate
    self.debug = debug
    self.flow2class = flow2class
    self.element_id = uuid.uuid4()
    self.queue_byte_size = dd(lambda: 0)
    self.queue_count = dd(lambda: 0)
    self.current_packet = None
    self.packets_received = 0
''')

spec('Scheduler', 'all_flows')('''
def all_flows(self):
    return list(self.queue_count.keys())
''')
spec('Scheduler', 'byte_size')('''
def byte_size(self, flow_id):
    return self.queue_byte_size[flow_id]
''')
spec('Scheduler', 'size')('''
def size(self, flow_id):
    return self.queue_count[flow_id]
''')
spec('Scheduler', 'packet_in_service')('''
def packet_in_service(self):
    return self.current_packet
''')
spec('Scheduler', 'total_packets')('''
def total_packets(self):
    return sum(self.queue_count.values())
''')

spec('Scheduler', 'send_packet', what='mark in service; hold exactly 8*size/rate; then release the flow\'s counters (same '
                                      'key as the increments), forward at most once, clear in-service on every exit')('''
def send_packet(self, packet):
    self.current_packet = packet
    yield self.env.timeout(packet.size * 8 / self.rate)
    self.queue_count[packet.flow_id] -= 1
    self.queue_byte_size[packet.flow_id] -= packet.size
    if self.out:
        self.out.put(packet)
    self.current_packet = None
''')

spec('Scheduler', 'add_packet_to_queue', what='arrival: receive counter and the flow\'s packet and byte counters')('''
def add_packet_to_queue(self, packet):
    self.packets_received += 1
    self.queue_count[packet.flow_id] += 1
    self.queue_byte_size[packet.flow_id] += packet.size
''')

spec('MultiQueueScheduler', '__init__', what='one kernel FIFO store per key; a token channel for the server')('''
def __init__(self, env, rate, flow2class=lambda fid: fid, debug=False):
    super().__init__(env, rate, flow2class, debug)
    self.stores = dd(lambda: Store(env))
    self.packets_available = Store(env)
''')

spec('MultiQueueScheduler', 'put', what='wake-up token posted iff the system was empty on entry (test before the '
                                        'increment); then count; then enqueue in the flow\'s own store')('''
def put(self, packet):
    if self.total_packets == 0:
        self.packets_available.put(True)
    self.add_packet_to_queue(packet)
    self.stores[packet.flow_id].put(packet)
''')

# ------------------------------------------------------------------ sp.py

spec('SP', '__init__', what='scan list sorted by priority value, highest first')('''
def __init__(self, env, rate, priorities, flow2class=lambda fid: fid, debug=False):
    super().__init__(env, rate, flow2class, debug)
    self.priorities = sorted(priorities.items(), key=lambda item: item[1], reverse=True)
    self.proc = env.process(self.run(env))
''')

spec('SP', 'run', what='scan from the highest priority; skip empty queues (tested at the time, by packet count); take the head '
                       'packet in the same step as the choice; serve it (awaited) and restart the scan from the top; block only when the system is empty')('''
def run(self, env):
    while True:
        for flow_id, prio in self.priorities:
            if prio > 0:
                store = self.stores[flow_id]
                if store.size() == 0:
                    continue
                packet = store.get().value
                packet.priorities[self.flow2class(packet.flow_id)] = prio
                yield env.process(self.send_packet(packet))
                break
        if self.total_packets == 0:
            yield self.packets_available.get()
''')

spec('SP', 'put', what='queued per class (the priority table is keyed by class); wake-up token iff the system was empty on entry')('''
def put(self, packet):
    class_id = self.flow2class(packet.flow_id)
    if self.total_packets == 0:
        self.packets_available.put(True)
    self.add_packet_to_queue(packet)
    self.stores[class_id].put(packet)
''')

# ------------------------------------------------------------------ wfq.py

spec('WFQ', '__init__')('''
def __init__(self, env, rate, weights, flow2class=lambda f: f, debug=False):
    super().__init__(env, rate, flow2class, debug)
    self.weights = weights
    self.finish_times = dict()
    self.active_set = set()
    self.vtime = 0.0
    self.last_time = 0.0
    self.store = PriorityStore(env)
    self.arrival_seq = 0
    self.class_backlog = {c: 0 for c in weights}
    self.action = env.process(self.run(env))
''')

spec('WFQ', 'update_vtime', what='V += (now - last_time) / sum of the weights of the backlogged classes, added up in configuration order')('''
def update_vtime(self):
    weight_sum = 0.0
    now = self.env.now
    for i in self.weights:
        if i in self.active_set:
            weight_sum += self.weights[i]
    self.vtime += (now - self.last_time) / weight_sum
''')

spec('WFQ', 'reset_vtime', what='V and every finish stamp back to 0')('''
def reset_vtime(self):
    self.vtime = 0
    for class_id in self.weights.keys():
        self.finish_times[class_id] = 0.0
''')

spec('WFQ', 'run', what='wait for a packet; in the step in which the transmission is started choose the smallest stamp '
                        '*again* (the wait was granted at least one step earlier and arrivals of that instant may carry a '
                        'smaller stamp); serve it (transmission plus departure bookkeeping, awaited)')('''
def run(self, env):
    while True:
        item = yield self.store.get()
        self.store.put(item)
        item = self.store.get().value
        yield env.process(self.serve(item.item))
''')

spec('WFQ', 'serve', what='transmit, then in the same step: advance V over the transmission with the classes backlogged during it, '
                          'drop the class if its backlog is 0, reset when idle, close the interval')('''
def serve(self, packet):
    yield from self.send_packet(packet)
    self.update_vtime()
    class_id = self.flow2class(packet.flow_id)
    self.class_backlog[class_id] -= 1
    if self.class_backlog[class_id] == 0:
        self.active_set.remove(class_id)
    if len(self.active_set) == 0:
        self.reset_vtime()
    self.last_time = self.env.now
''')

spec('WFQ', 'put', what='idle: reset; else advance V; stamp F = max(F_c, V) + 8*size/(rate*w_c) on every path; count; '
                        'activate; key (F, arrival instant, arrival number)')('''
def put(self, packet):
    class_id = self.flow2class(packet.flow_id)
    now = self.env.now
    if len(self.active_set) == 0:
        self.reset_vtime()
    else:
        self.update_vtime()
    self.finish_times[class_id] = max(self.finish_times[class_id], self.vtime) + packet.size * 8 / (self.rate * self.weights[class_id])
    self.add_packet_to_queue(packet)
    self.class_backlog[class_id] += 1
    self.active_set.add(class_id)
    self.last_time = now
    self.arrival_seq += 1
    self.store.put(PriorityItem((self.finish_times[class_id], now, self.arrival_seq), packet))
''')

# ------------------------------------------------------------------ virtual_clock.py

spec('VC', '__init__', what='auxVC of every class starts at the clock origin (max(now, auxVC) must select now for the first packet whatever the origin)')('''
def __init__(self, env, rate, vticks, flow2class=lambda fid: fid, debug=False):
    super().__init__(env, rate, flow2class, debug)
    self.vticks = vticks
    self.vc = dict()
    self.aux_vc = dict()
    self.store = PriorityStore(env)
    self.arrival_seq = 0
    for class_id in vticks.keys():
        self.aux_vc[class_id] = env.now
        self.vc[class_id] = 0
    self.proc = env.process(self.run(env))
''')

spec('VC', 'run', what='wait for a packet; choose the smallest stamp again in the step in which the transmission is '
                       'started; unwrap, transmit (awaited)')('''
def run(self, env):
    while True:
        item = yield self.store.get()
        self.store.put(item)
        item = self.store.get().value
        yield env.process(self.send_packet(item.item))
''')

spec('VC', 'put', what='auxVC_c = max(now, auxVC_c) + vtick_c; count; key (auxVC_c, arrival number)')('''
def put(self, packet):
    class_id = self.flow2class(packet.flow_id)
    now = self.env.now
    if self.vc[class_id] == 0:
        self.vc[class_id] = now
    self.vc[class_id] = self.vc[class_id] + self.vticks[class_id] * packet.size * 8
    self.aux_vc[class_id] = max(now, self.aux_vc[class_id]) + self.vticks[class_id]
    self.add_packet_to_queue(packet)
    self.arrival_seq += 1
    self.store.put(PriorityItem((self.aux_vc[class_id], self.arrival_seq), packet))
''')

# ------------------------------------------------------------------ drr.py

spec('DRR', '__init__', what='quantum_c = 1500 * w_c / min w; credit 0; classes in declaration order')('''
def __init__(self, env, rate, weights, flow2class=lambda fid: fid, debug=False):
    super().__init__(env, rate, flow2class, debug)
    self.deficit = dict()
    self.quantum = dict()
    self.class_backlog = dict()
    min_weight = min(weights.values())
    for class_id, weight in weights.items():
        self.deficit[class_id] = 0.0
        self.class_backlog[class_id] = 0
        self.quantum[class_id] = self.MIN_QUANTUM * weight / min_weight
    self.head_of_line = dict()
    self.active_set = set()
    self.flow2class = flow2class
    self.proc = env.process(self.run(env))
''')

spec('DRR', 'put', what='queued and counted per class; wake-up token iff the system was empty on entry')('''
def put(self, packet):
    class_id = self.flow2class(packet.flow_id)
    if self.total_packets == 0:
        self.packets_available.put(True)
    self.add_packet_to_queue(packet)
    self.class_backlog[class_id] += 1
    self.stores[class_id].put(packet)
''')

spec('DRR', 'run', what='per visit: credit += quantum once iff backlogged; send head packets while the credit covers them '
                        '(awaited), debit their size, forget the credit when the class empties; an unaffordable head is '
                        'parked under its class and keeps the credit')('''
def run(self, env):
    while True:
        while self.total_packets > 0:
            for class_id, count in self.class_backlog.items():
                if count > 0:
                    self.deficit[class_id] += self.quantum[class_id]
                while self.deficit[class_id] > 0 and self.class_backlog[class_id] > 0:
                    if class_id in self.head_of_line:
                        packet = self.head_of_line[class_id]
                        del self.head_of_line[class_id]
                    else:
                        packet = yield self.stores[class_id].get()
                    assert class_id == self.flow2class(packet.flow_id)
                    if packet.size <= self.deficit[class_id]:
                        self.current_packet = packet
                        yield env.process(self.serve(class_id, packet))
                    else:
                        assert not class_id in self.head_of_line
                        self.head_of_line[class_id] = packet
                        break
        if self.total_packets == 0:
            yield self.packets_available.get()
''')

# ------------------------------------------------------------------ rr.py / wrr.py

spec('DRR', 'serve', what='transmit, then in the same step: one packet less in the class, credit debited by its size, '
                          'credit forgotten when the class is empty')('''
def serve(self, class_id, packet):
    yield from self.send_packet(packet)
    self.class_backlog[class_id] -= 1
    self.deficit[class_id] -= packet.size
    if self.class_backlog[class_id] == 0:
        self.deficit[class_id] = 0.0
''')

spec('RR', '__init__', what='flows visited in the configured list order')('''
def __init__(self, env, rate, flows, debug=False):
    super().__init__(env, rate, debug)
    self.flows = flows
    self.proc = env.process(self.run(env))
''')

spec('RR', 'run', what='cyclic scan in list order; a backlogged flow sends exactly one packet (awaited); block only when empty')('''
def run(self, env):
    while True:
        for flow_id in self.flows:
            if self.queue_count[flow_id] > 0:
                store = self.stores.get(flow_id)
                assert store
                packet = yield store.get()
                yield env.process(self.send_packet(packet))
        if self.total_packets == 0:
            yield self.packets_available.get()
''')

spec('WRR', '__init__')('''
def __init__(self, env, rate, weights, debug=False):
    super().__init__(env, rate, debug)
    self.weights = weights
    self.proc = env.process(self.run(env))
''')

spec('WRR', 'run', what='cyclic scan in table order; up to `weight` packets per visit, the queue re-tested before each send')('''
def run(self, env):
    while True:
        for flow_id, weight in self.weights.items():
            for _ in range(weight):
                if self.queue_count[flow_id] > 0:
                    store = self.stores.get(flow_id)
                    assert store
                    packet = yield store.get()
                    yield env.process(self.send_packet(packet))
                else:
                    break
        if self.total_packets == 0:
            yield self.packets_available.get()
''')

# ------------------------------------------------------------------ monitor.py

spec('Monitor', '__init__')('''
def __init__(self, env, scheduler, dist, service_included=False):
    self.env = env
    self.scheduler = scheduler
    self.dist = dist
    self.service_included = service_included
    self.sizes = dd(list)
    self.byte_sizes = dd(list)
    self.action = env.process(self.run(env))
''')

spec('Monitor', 'run', what='the per-flow counters already contain the packet in service: report as is when included, '
                            'minus the packet in service (same flow) when excluded')('''
def run(self, env):
    while True:
        yield env.timeout(self.dist())
        for flow_id in self.scheduler.all_flows():
            total = self.scheduler.size(flow_id)
            total_bytes = self.scheduler.byte_size(flow_id)
            if not self.service_included:
                service_pkt = self.scheduler.packet_in_service
                if service_pkt and service_pkt.flow_id == flow_id:
                    total = total - 1
                    total_bytes = total_bytes - service_pkt.size
            self.sizes[flow_id].append(total)
            self.byte_sizes[flow_id].append(total_bytes)
''')


def run_tables(ctx, prefix, keys):
    for k in keys:
        if len(k) == 2:
            k = (k[0], k[1], None)
        d = SPECS[k]
        c, m, cx = k
        ctx.table('%s.T.%s.%s%s' % (prefix, c, m, '@' + cx if cx else ''), c, m, d['src'], d['view'] or SVIEW, d['opts'],
                  own=True, ctx_cls=cx, what=d['what'] or '%s.%s as the property requires' % (c, m))
