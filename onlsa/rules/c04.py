"""C04 - interrupts reach a live process once, in issue order, ahead of ordinary events"""
from . import kernel, whomay

def check(ctx):
    kernel.run_tables(ctx, 'C04', [
        ('Interruption', '__init__'), ('Interruption', '_interrupt'), ('Process', 'interrupt'), ('Process', '__init__'),
        ('Initialize', '__init__'), ('Process', '_resume'), ('Interrupt', 'cause'), ('Interrupt', '__init__'),
        ('Event', 'triggered'), ('Process', 'is_alive'), ('Process', 'target'), ('Event', 'processed'),
    ])
    whomay.schedule_sites(ctx, 'C04')
    whomay.priority_constants(ctx, 'C04')
    whomay.interruption_sites(ctx, 'C04')
    whomay.active_process_discipline(ctx, 'C04')
    return ('Static: Interruption.__init__ (pre-failed, pre-defused, dead/self targets refused before scheduling, URGENT), '
            'Interruption._interrupt (dead victim ignored, victim alone detached from its target, then resumed), '
            'Process.__init__/Initialize (start scheduled URGENT before any reference to the process exists) and '
            'Process._resume compared with reference tables; priority of every schedule() site; Interruption constructed '
            'only by Process.interrupt.')
