"""C12.R5 - key domains (kind E rule): flow ids and class ids must never index
the same dictionary in a scheduler that accepts a flow2class mapping.

Union-find over index expressions.  Two seeds: ``<packet>.flow_id`` is a Flow,
the result of ``self.flow2class(..)`` is a Class.  Local variables, loop
variables over a table's keys, equality asserts and constructor tables
propagate the domain.  A dictionary (or set) reachable from both seeds is
indexed inconsistently whenever flow2class is not the identity.
"""
import ast

from ..model import walk_local


class UF:
    def __init__(self):
        self.p = {}

    def find(self, x):
        self.p.setdefault(x, x)
        while self.p[x] != x:
            self.p[x] = self.p[self.p[x]]
            x = self.p[x]
        return x

    def union(self, a, b):
        self.p[self.find(a)] = self.find(b)


def selfattr(n):
    if isinstance(n, ast.Attribute) and isinstance(n.value, ast.Name) and n.value.id == 'self':
        return n.attr
    return None


def analyse(cls):
    uf = UF()
    sites = {}
    methods = {}
    for k in reversed(cls.mro()):
        for name, f in k.methods.items():
            methods[name] = (k.name, f.node, f)
    init = methods.get('__init__')
    accepts = bool(init) and any(a.arg == 'flow2class' for a in init[1].args.args)
    for mname, (owner, m, finfo) in methods.items():
        def node_of(e, owner=owner, mname=mname):
            if isinstance(e, ast.Name):
                return ('var', owner, mname, e.id)
            if isinstance(e, ast.Attribute) and e.attr == 'flow_id':
                return 'FLOW'
            if isinstance(e, ast.Call) and selfattr(e.func) == 'flow2class':
                return 'CLASS'
            return None

        def keynode(d):
            return ('key', d)

        for n in walk_local(m):
            if isinstance(n, ast.Assign) and len(n.targets) == 1 and isinstance(n.targets[0], ast.Name):
                a, b = node_of(n.targets[0]), node_of(n.value)
                if a and b:
                    uf.union(a, b)
            if isinstance(n, ast.Subscript) and selfattr(n.value):
                k = node_of(n.slice)
                if k:
                    uf.union(keynode(selfattr(n.value)), k)
                    sites.setdefault(selfattr(n.value), []).append((finfo, n.lineno))
            if isinstance(n, ast.Call) and isinstance(n.func, ast.Attribute) and n.func.attr in (
                    'add', 'remove', 'discard', 'get', 'pop', 'setdefault') and selfattr(n.func.value) and n.args:
                k = node_of(n.args[0])
                if k:
                    uf.union(keynode(selfattr(n.func.value)), k)
                    sites.setdefault(selfattr(n.func.value), []).append((finfo, n.lineno))
            # helper calls keyed by flow: self.size(flow_id), self.byte_size(flow_id)
            if isinstance(n, ast.Call) and selfattr(n.func) in ('size', 'byte_size') and n.args:
                k = node_of(n.args[0])
                if k:
                    uf.union(keynode('queue_count' if selfattr(n.func) == 'size' else 'queue_byte_size'), k)
                    sites.setdefault('queue_count', []).append((finfo, n.lineno))
            if isinstance(n, ast.Compare) and len(n.ops) == 1 and isinstance(n.ops[0], (ast.In, ast.NotIn, ast.Eq)):
                r = n.comparators[0]
                if isinstance(n.ops[0], ast.Eq):
                    a, b = node_of(n.left), node_of(r)
                    if a and b:
                        uf.union(a, b)
                elif selfattr(r):
                    k = node_of(n.left)
                    if k:
                        uf.union(keynode(selfattr(r)), k)
            if isinstance(n, ast.For):
                it, tgt = n.iter, n.target
                src = None
                if selfattr(it):
                    src = selfattr(it)
                elif isinstance(it, ast.Call) and isinstance(it.func, ast.Attribute) and it.func.attr in ('items', 'keys') \
                        and selfattr(it.func.value):
                    src = selfattr(it.func.value)
                elif isinstance(it, ast.Name):
                    for a in walk_local(m):
                        if isinstance(a, ast.Assign) and isinstance(a.targets[0], ast.Name) and a.targets[0].id == it.id \
                                and isinstance(a.value, ast.Call) and isinstance(a.value.func, ast.Attribute) \
                                and selfattr(a.value.func.value):
                            src = selfattr(a.value.func.value)
                kv = tgt.elts[0] if isinstance(tgt, ast.Tuple) else tgt
                if src and isinstance(kv, ast.Name):
                    uf.union(keynode(src), ('var', owner, mname, kv.id))
            if isinstance(n, (ast.DictComp,)):
                pass
    if init:
        owner, initn, _ = init
        for n in walk_local(initn):
            if isinstance(n, ast.Assign) and selfattr(n.targets[0]) and isinstance(n.value, ast.Name):
                uf.union(('key', selfattr(n.targets[0])), ('param', n.value.id))
            if isinstance(n, ast.Assign) and selfattr(n.targets[0]) and isinstance(n.value, ast.Call) \
                    and isinstance(n.value.func, ast.Name) and n.value.func.id == 'sorted' and n.value.args:
                a0 = n.value.args[0]
                if isinstance(a0, ast.Call) and isinstance(a0.func, ast.Attribute) and isinstance(a0.func.value, ast.Name):
                    uf.union(('key', selfattr(n.targets[0])), ('param', a0.func.value.id))
            if isinstance(n, ast.Assign) and selfattr(n.targets[0]) and isinstance(n.value, ast.DictComp):
                g = n.value.generators[0]
                if isinstance(g.iter, ast.Name):
                    uf.union(('key', selfattr(n.targets[0])), ('param', g.iter.id))
            if isinstance(n, ast.For) and isinstance(n.iter, ast.Call) and isinstance(n.iter.func, ast.Attribute) \
                    and isinstance(n.iter.func.value, ast.Name):
                kv = n.target.elts[0] if isinstance(n.target, ast.Tuple) else n.target
                if isinstance(kv, ast.Name):
                    uf.union(('param', n.iter.func.value.id), ('var', owner, '__init__', kv.id))
    mixed = uf.find('FLOW') == uf.find('CLASS')
    roots = (uf.find('FLOW'), uf.find('CLASS'))
    dicts = sorted(k[1] for k in list(uf.p) if isinstance(k, tuple) and k[0] == 'key' and uf.find(k) in roots)
    flow_dicts = sorted(k[1] for k in list(uf.p) if isinstance(k, tuple) and k[0] == 'key' and uf.find(k) == uf.find('FLOW'))
    class_dicts = sorted(k[1] for k in list(uf.p) if isinstance(k, tuple) and k[0] == 'key' and uf.find(k) == uf.find('CLASS'))
    return accepts, mixed, dicts, flow_dicts, class_dicts, sites


def check(ctx, prop, only=None):
    rule = prop + '.E.keydomains'
    n = 0
    for c in ctx.repo.subclasses('Scheduler', strict=True):
        if c.name == 'MultiQueueScheduler':
            continue
        if only and c.name not in only:
            continue
        n += 1
        accepts, mixed, dicts, fd, cd, sites = analyse(c)
        construct = '%s::%s' % (c.module.relpath, c.name)
        ctx.consulted.add(c.module.relpath)
        ok = not (accepts and mixed)
        ctx.ob(rule, ok)
        if ok:
            ctx.sample(rule, construct, 'flow-keyed %s and class-keyed %s never mixed (accepts flow2class: %s)' % (fd, cd, accepts))
        else:
            where = ''
            for d in dicts:
                for f, ln in sites.get(d, []):
                    if f.cls is c:
                        where = '%s:%d' % (f.module.relpath, ln)
                        break
                if where:
                    break
            ctx.violation(rule, construct, 'flow ids and class ids index the same tables %s' % dicts,
                          '%s accepts flow2class but indexes %s with both flow ids and class ids: wrong entry / KeyError '
                          'when several flows share a class' % (c.name, dicts), where=where)
    ctx.floor(rule, n, 2 if only and len(only) <= 2 else 3 if only else 6, 'scheduler classes')
