"""C01 - events take effect in time order, urgent-first, then trigger order"""
from . import kernel, whomay, guards

def check(ctx):
    kernel.run_tables(ctx, 'C01', [
        ('Environment', '__init__'), ('Environment', 'schedule'), ('Environment', 'step'), ('Environment', 'peek'),
        ('Timeout', '__init__'), ('Initialize', '__init__'), ('Interruption', '__init__'),
        ('RealtimeEnvironment', '__init__'), ('Environment', 'run@numeric'), ('Process', '_resume@agenda'),
    ])
    whomay.kernel_state_writers(ctx, 'C01')
    whomay.schedule_sites(ctx, 'C01')
    whomay.priority_constants(ctx, 'C01')
    whomay.schedule_delay_exact(ctx, 'C01')
    guards.nan_refused(ctx, 'C01', [('Timeout', '__init__', 'delay'), ('Environment', 'run', 'until'), ('Environment', '__init__', 'initial_time')],
                       'a NaN key breaks the heap order of the agenda: occurrences fire out of time order and the clock goes backwards')
    return ('Static analysis of the agenda mechanism: path tables of schedule/step/run/Timeout/Initialize/Interruption/'
            'trigger methods/Process._resume compared with reference tables (key shape (now+delay, priority, next id, '
            'event), guard delay<0, URGENT/NORMAL at every schedule site), whole-repo who-may scans for writers of the '
            'clock, the agenda and the insertion counter, and resolution of the priority constants. Decides the '
            'mechanism; heapq and tuple comparison are trusted.')
