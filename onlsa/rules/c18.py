"""C18 - demuxes, switches, hubs, splitters and fat-tree FIBs deliver to the right place"""
from . import netdev as N, tcp as T, elements, deps

def check(ctx):
    N.run_tables(ctx, 'C18', [('FlowDemux', '__init__'), ('FlowDemux', 'put'), ('RandomDemux', '__init__'),
                              ('RandomDemux', 'put'), ('FIBDemux', '__init__'), ('FIBDemux', 'put'), ('FIBDemux', 'fib'),
                              ('FIBDemux', 'fib.setter'), ('SimplePacketSwitch', '__init__'), ('SimplePacketSwitch', 'put'),
                              ('FairPacketSwitch', '__init__'), ('FairPacketSwitch', 'put'), ('Hub', '__init__'),
                              ('Hub', 'add_endpoint'), ('Hub', 'put'), ('Splitter', '__init__'), ('Splitter', 'put'),
                              ('NSplitter', '__init__'), ('NSplitter', 'put'), ('Packet', '__init__'), ('Packet', '__copy__')])
    T.run_tables(ctx, 'C18', [('FatTree', '__init__'), ('FatTree', 'topo'), ('FatTree', 'hosts'),
                              ('FatTree', 'generate_flows'), ('FatTree', 'generate_fib')])
    elements.copy_aliasing(ctx, 'C18')
    elements.ack_offset_constant(ctx, 'C18')
    elements.element_id_defined(ctx, 'C18')
    elements.class_method_sets(ctx, 'C18', only=('FlowDemux', 'RandomDemux', 'FIBDemux', 'SimplePacketSwitch',
                                                   'FairPacketSwitch', 'Hub', 'Splitter', 'NSplitter', 'FatTree', 'Packet'))
    deps.element_layers(ctx, 'C18')
    return ('Static: FlowDemux.put (0 <= f < len(outs) else default else nowhere), FIBDemux.put (end device, table, '
            'default; an empty table is a table), the switch constructors, Hub (source exclusion, per-endpoint output), '
            'Splitter/NSplitter (original to the first output, a fresh copy per other output), Packet.__copy__ (no shared '
            'mutable header state), FatTree construction / flow generation / FIB generation compared with reference tables; '
            'every mutable member initialised in Packet.__init__ is re-created by __copy__; the ACK class offset is one '
            'literal. End-to-end delivery in a simulated fat tree is a run-time statement and is not decided.')
