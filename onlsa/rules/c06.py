"""C06 - resources never exceed capacity, grant in queue order, never idle a slot"""
from . import resources as R, whomay, deps

def check(ctx):
    R.run_tables(ctx, 'C06', [
        ('Resource', '__init__'), ('Resource', '_do_put'), ('Resource', '_do_get'), ('Resource', 'count'),
        ('Resource', 'users'), ('Resource', 'queue'),
        ('BaseResource', '__init__'), ('BaseResource', '_trigger_put'), ('BaseResource', '_trigger_get'),
        ('BaseResource', 'capacity'),
        ('Put', '__init__'), ('Get', '__init__'), ('Put', 'cancel'), ('Get', 'cancel'), ('Put', '__exit__'),
        ('Get', '__exit__'), ('Put', '__enter__'), ('Get', '__enter__'),
        ('Request', '__exit__'), ('Release', '__init__'), ('PriorityRequest', '__init__'),
        ('SortedQueue', '__init__'), ('SortedQueue', 'append'), ('PriorityResource', '__init__'),
        ('PreemptiveResource', '_do_put'), ('Preempted', '__init__'),
    ])
    R.class_shapes(ctx, 'C06', ['Put', 'Get', 'Request', 'Release', 'PriorityRequest', 'BaseResource', 'Resource',
                                'PriorityResource', 'PreemptiveResource', 'SortedQueue', 'Preempted'])
    whomay.check_writers(ctx, 'C06.W.users', '_users', {
        'Resource.__init__': 'no users initially', 'Resource._do_put': 'append under the capacity guard',
        'Resource._do_get': 'remove on release'}, 3, 'the user list is changed only by grant and release')
    whomay.check_writers(ctx, 'C06.W.users2', 'users', {
        'PreemptiveResource._do_put': 'eviction of the preempted user'}, 1,
        'the user list is changed only by grant, release and eviction')
    whomay.queue_writers(ctx, 'C06')
    deps.kernel(ctx, 'C06')
    return ('Static: Resource._do_put/_do_get (grant iff len(users) < capacity), the scan loops _trigger_put/_trigger_get '
            '(from the head, stop at the first request that cannot proceed), Put/Get constructors and cancel (enqueue, '
            'cross-subscribe, rescan), Request.__exit__/Release, PriorityRequest key (priority, time, not preempt), '
            'SortedQueue.append (append + stable sort), PreemptiveResource._do_put (worst-ranked user by full key, '
            'strictly worse) compared with reference tables; class-level queue types / BoundClass bindings / overrides; '
            'who-may scans for the user list and the request queues.')
