"""C10 - a wire delays each packet by its drawn delay, keeps order, loses only by rate"""
from . import netdev as N, resources as R, elements, deps

def check(ctx):
    N.run_tables(ctx, 'C10', [('Wire', '__init__'), ('Wire', 'put'), ('Wire', 'run'), ('Cable', '__init__'),
                              ('Cable', 'set_endpoints'), ('OutMixIn', 'out'), ('OutMixIn', 'out.setter')])
    R.run_tables(ctx, 'C10', [('Store', '_do_put@unbounded'), ('Store', '_do_get')])
    elements.spawn_sites(ctx, 'C10', only=('Wire',))
    elements.class_method_sets(ctx, 'C10', only=('Wire', 'Cable'))
    deps.element_layers(ctx, 'C10')
    return ('Static: Wire.put (entry instant stamped on every entry, one enqueue), Wire.run (loss decided first with one '
            'draw and only when a rate is set; kept packet: one delay draw, wait delay - queued time iff positive, one '
            'forward; lost packet: no wait, no forward), Cable (two wires with the same loss rate, crossed endpoints) '
            'compared with reference tables; FIFO of the kernel Store. Distribution of the draws is not decided.')
