"""rule modules: one composition module per property (c01 .. c20) over the shared rule libraries"""
import importlib


def check_property(prop, ctx):
    """the property's own rules, then the class-protocol shape rule over every module they consulted"""
    mod = importlib.import_module('onlsa.rules.%s' % prop.lower())
    explanation = mod.check(ctx)
    from . import shapes
    shapes.protocol(ctx, prop)
    return (explanation or '') + (' Class protocol: the special methods, class decorators and method decorators of every '
                                  'class in the consulted modules are the confirmed ones.')
