"""C11 - token-bucket output conforms to (rate, bucket) and delays nothing needlessly"""
from . import netdev as N, resources as R, elements, deps

def check(ctx):
    N.run_tables(ctx, 'C11', [('TokenBucket', '__init__'), ('TokenBucket', 'put'), ('TokenBucket', 'run'),
                              ('TwoRateTokenBucket', '__init__'), ('TwoRateTokenBucket', 'put'),
                              ('TwoRateTokenBucket', 'run')])
    R.run_tables(ctx, 'C11', [('Store', '_do_put@unbounded'), ('Store', '_do_get')])
    elements.store_shape_agreement(ctx, 'C11', only=('TokenBucket', 'TwoRateTokenBucket'))
    elements.state_asserts(ctx, 'C11', only=('TokenBucket', 'TwoRateTokenBucket'))
    elements.spawn_sites(ctx, 'C11', only=('TokenBucket', 'TwoRateTokenBucket'))
    elements.class_method_sets(ctx, 'C11', only=('TokenBucket', 'TwoRateTokenBucket'))
    deps.element_layers(ctx, 'C11')
    return ('Static: TokenBucket.run (refill min(B, level + rate*dt/8), wait exactly (size-level)*8/rate when short, debit '
            'otherwise, update_time = debit instant, peak spacing before the forward) and TwoRateTokenBucket.run (both '
            'refills, three-way colour decision, green implies the committed bucket was debited under size <= level) '
            'compared with reference tables; producer/consumer shape of the store; no assert on a level that may be 0. The '
            'conformance inequality over all departure pairs follows from this arithmetic but is not mechanised.')
