"""C19 - a Timer fires exactly at its expiry, and stop/restart always take effect"""
from . import tcp as T, kernel as K, elements, whomay, deps

def check(ctx):
    T.run_tables(ctx, 'C19', [('Timer', '__init__'), ('Timer', 'run'), ('Timer', 'wait'), ('Timer', 'stop'),
                              ('Timer', 'restart'), ('TCPPacketGenerator', 'timeout_callback')])
    whomay.active_process_discipline(ctx, 'C19')
    elements.timer_args_shape(ctx, 'C19')
    elements.timer_no_self_interrupt(ctx, 'C19')
    elements.interrupt_guards_imply_precondition(ctx, 'C19')
    elements.class_method_sets(ctx, 'C19', only=('Timer',))
    deps.element_layers(ctx, 'C19')
    return ('Static: Timer.__init__ (argument normalisation), run (sleep exactly until expire_time, callback iff not '
            'stopped with *args/**kwargs, re-arm iff auto_restart, interrupt ends silently), stop, restart (re-base, no '
            'self-interrupt, interrupt only a live process, always a new sleeper) compared with reference tables; call '
            'graph with callback edges: restart is reachable from the timer\'s own process, so its interrupt must be '
            'guarded by the active-process test; the guard before interrupt() implies the callee\'s precondition.')
