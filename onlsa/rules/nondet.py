"""C03.R1: nondeterminism sources, classified by sink (kind F rule)"""
import ast
from ..model import walk_local

KERNEL = ('onl/sim/',)
EXCLUDED = {'onl/packet/proxy_generator.py': 'real-socket bridge', 'onl/packet/proxy_sink.py': 'real-socket bridge',
            'onl/device/udp.py': 'real-socket bridge', 'onl/utils/testing.py': 'test driver for student programs',
            'onl/sim/rt.py': 'wall-clock pacing is the purpose (C20)'}
WALLCLOCK = {'time', 'monotonic', 'perf_counter', 'time_ns', 'monotonic_ns', 'now', 'today', 'urandom', 'getpid'}


def _set_fields(cls):
    out = set()
    for k, v in cls.init_fields().items():
        if isinstance(v, ast.Call) and isinstance(v.func, ast.Name) and v.func.id in ('set', 'frozenset'):
            out.add(k)
        if isinstance(v, ast.Set) or isinstance(v, ast.SetComp):
            out.add(k)
    return out


def sources(ctx, prop):
    rule = prop + '.F.nondet'
    repo = ctx.repo
    n = 0
    for f in repo.all_functions():
        rel = f.module.relpath
        if rel in EXCLUDED:
            continue
        kernel = rel.startswith(KERNEL)
        setf = _set_fields(f.cls) if f.cls is not None else set()
        local_sets = set()
        for node in walk_local(f.node):
            if isinstance(node, ast.Assign) and isinstance(node.value, (ast.Call, ast.Set, ast.SetComp)):
                v = node.value
                if isinstance(v, (ast.Set, ast.SetComp)) or (isinstance(v.func, ast.Name) and v.func.id in ('set', 'frozenset')):
                    for t in node.targets:
                        if isinstance(t, ast.Name):
                            local_sets.add(t.id)
        for node in walk_local(f.node):
            construct = '%s::%s' % (rel, f.qualname)
            where = '%s:%d' % (rel, getattr(node, 'lineno', 0))
            if isinstance(node, ast.Call):
                fn = node.func
                nm = fn.id if isinstance(fn, ast.Name) else fn.attr if isinstance(fn, ast.Attribute) else ''
                r = repo.resolve_name(f.module, nm) if isinstance(fn, ast.Name) else None
                full = r[1] if r and r[0] == 'ext' else (ast.unparse(fn) if isinstance(fn, ast.Attribute) else nm)
                root = full.split('.')[0]
                if root in ('time', 'datetime', 'os', 'uuid', 'secrets') and (nm in WALLCLOCK or root in ('uuid', 'secrets')) or full in ('id', 'hash'):
                    n += 1
                    ok = False
                    why = ''
                    if full == 'id' and f.name in ('__repr__', '_desc'):
                        ok, why = True, 'id() only inside __repr__'
                    elif root == 'uuid' and f.qualname == 'Scheduler.__init__':
                        ok, why = True, 'uuid element id: checked separately to reach only __repr__/dprint'
                    ctx.ob(rule, ok)
                    if ok:
                        ctx.sample(rule, construct, '%s: %s' % (full, why))
                    else:
                        ctx.violation(rule, construct, 'call %s' % full, '%s uses %s: result depends on the run, not on the program' % (f.qualname, full), where=where)
                # a private generator seeded from the OS: random.Random() / SystemRandom / default_rng() without a seed
                if (full in ('random.Random', 'random.SystemRandom', 'numpy.random.default_rng', 'np.random.default_rng', 'random.seed')
                        or (root == 'random' and nm in ('Random', 'SystemRandom'))) and (nm == 'SystemRandom' or not node.args):
                    n += 1
                    ctx.ob(rule, False)
                    ctx.violation(rule, construct, 'call %s()' % full,
                                  '%s draws from a generator seeded by the operating system (%s without a seed): the program\'s random.seed() no longer determines the run' % (f.qualname, full), where=where)
                # iteration-order of a set passed to an order-sensitive constructor
                if nm in ('list', 'tuple', 'sorted', 'enumerate', 'iter', 'next') and node.args:
                    a = node.args[0]
                    if _is_set_expr(a, setf, local_sets) and nm != 'sorted':
                        n += 1
                        ctx.ob(rule, False)
                        ctx.violation(rule, construct, '%s(<set>)' % nm, '%s materialises a set in iteration order (%s): hash-seed dependent order' % (f.qualname, ast.unparse(node)[:60]), where=where)
            if isinstance(node, (ast.For, ast.comprehension)):
                it = node.iter
                if _is_set_expr(it, setf, local_sets):
                    n += 1
                    ok = _commutative_body(node) if isinstance(node, ast.For) else False
                    # building another set / membership hosts are order-insensitive
                    ctx.ob(rule, ok)
                    if ok:
                        ctx.sample(rule, construct, 'iteration over set %s is a commutative reduction' % ast.unparse(it))
                    else:
                        ctx.violation(rule, construct, 'iteration over set %s' % ast.unparse(it),
                                      '%s iterates over a set (%s) in an order-sensitive way: hash-seed dependent order' % (f.qualname, ast.unparse(it)), where=where)
    # the uuid element id must not reach keys, orderings or packets: only __repr__ may read it
    sched = repo.find_class('Scheduler')
    for c in repo.subclasses('Scheduler'):
        for m, f in c.methods.items():
            for node in walk_local(f.node):
                if isinstance(node, ast.Attribute) and node.attr == 'element_id' and isinstance(node.ctx, ast.Load) \
                        and isinstance(node.value, ast.Name) and node.value.id == 'self':
                    n += 1
                    ok = m in ('__repr__',)
                    ctx.ob(rule, ok)
                    if not ok:
                        ctx.violation(rule, '%s::%s' % (f.module.relpath, f.qualname), 'read of the uuid element id',
                                      '%s reads the random element id of a scheduler outside __repr__' % f.qualname, where='%s:%d' % (f.module.relpath, node.lineno))
    ctx.floor(rule, n, 3, 'nondeterminism-source sites')


def _is_set_expr(e, setf, local_sets):
    if isinstance(e, (ast.Set, ast.SetComp)):
        return True
    if isinstance(e, ast.Call) and isinstance(e.func, ast.Name) and e.func.id in ('set', 'frozenset'):
        return True
    if isinstance(e, ast.Attribute) and isinstance(e.value, ast.Name) and e.value.id == 'self' and e.attr in setf:
        return True
    if isinstance(e, ast.Name) and e.id in local_sets:
        return True
    return False


def _integral(e) -> bool:
    """the accumulated term is an integer by construction (an int literal, a len()): integer addition is associative"""
    if isinstance(e, ast.Constant) and isinstance(e.value, int) and not isinstance(e.value, bool):
        return True
    if isinstance(e, ast.Call) and isinstance(e.func, ast.Name) and e.func.id == 'len':
        return True
    if isinstance(e, ast.BinOp) and isinstance(e.op, (ast.Add, ast.Mult, ast.Sub)):
        return _integral(e.left) and _integral(e.right)
    return False


def _commutative_body(loop: ast.For) -> bool:
    """every statement of the body is `acc += <integer>` on a plain name, or set.add / set.discard.
    A sum or product of other terms is NOT accepted: float addition is not associative, so the result depends on the
    iteration order of the set (WFQ's weight sum over string class ids differed by one ulp between hash seeds)."""
    for s in loop.body:
        if isinstance(s, ast.AugAssign) and isinstance(s.op, (ast.Add, ast.Mult)) and isinstance(s.target, ast.Name) \
                and _integral(s.value):
            continue
        if isinstance(s, ast.Assign) and len(s.targets) == 1 and isinstance(s.targets[0], ast.Name) \
                and isinstance(s.value, ast.BinOp) and isinstance(s.value.op, (ast.Add, ast.Mult)):
            l, r = s.value.left, s.value.right
            me = s.targets[0].id
            if (isinstance(l, ast.Name) and l.id == me and _integral(r)) or (isinstance(r, ast.Name) and r.id == me and _integral(l)):
                continue
        if isinstance(s, ast.Expr) and isinstance(s.value, ast.Call) and isinstance(s.value.func, ast.Attribute) \
                and s.value.func.attr in ('add', 'discard'):
            continue
        return False
    return True


_MUTABLE_CTORS = {'dict', 'list', 'set', 'defaultdict', 'collections.defaultdict', 'deque', 'collections.deque', 'OrderedDict',
                  'collections.OrderedDict', 'Counter', 'collections.Counter', 'bytearray'}


def class_level_mutables(ctx, prop):
    """a mutable container bound in a class body is one object for all instances and for every run in the process: what
    one simulation leaves in it (a parked packet, a sample) the next one finds.  The confirmed tree binds none; any is
    reported (a class-level constant tuple / frozenset / number / string is not mutable and is fine)."""
    rule = prop + '.S.class-level-state'
    n = 0
    for c in ctx.repo.all_classes():
        if c.module.relpath in EXCLUDED:
            continue
        n += 1
        bad = []

        def walk(body):
            for s in body:
                v, names = None, []
                if isinstance(s, ast.Assign):
                    v, names = s.value, [t.id for t in s.targets if isinstance(t, ast.Name)]
                elif isinstance(s, ast.AnnAssign) and s.value is not None and isinstance(s.target, ast.Name):
                    v, names = s.value, [s.target.id]
                elif isinstance(s, ast.If):
                    if ast.unparse(s.test) != 'TYPE_CHECKING':
                        walk(s.body)
                    walk(s.orelse)
                    continue
                if v is None or not names:
                    continue
                mutable = isinstance(v, (ast.Dict, ast.List, ast.Set, ast.ListComp, ast.DictComp, ast.SetComp)) or (
                    isinstance(v, ast.Call) and ast.unparse(v.func) in _MUTABLE_CTORS)
                if mutable:
                    bad.append((names[0], s.lineno, ast.unparse(v)[:40]))
        walk(c.node.body)
        ctx.ob(rule, not bad)
        for nm, ln, txt in bad:
            ctx.consulted.add(c.module.relpath)
            ctx.violation(rule, '%s::%s' % (c.module.relpath, c.name), 'class-level %s = %s' % (nm, txt),
                          '%s.%s = %s is bound in the class body: one object shared by every instance and every run in the process, '
                          'so a second execution of the same program does not start from the same state' % (c.name, nm, txt),
                          where='%s:%d' % (c.module.relpath, ln))
    ctx.floor(rule, n, 40, 'classes scanned')
