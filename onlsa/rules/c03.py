"""C03 - runs are reproducible and unaffected by where they are stopped"""
from . import kernel, whomay, nondet, guards, deps

def check(ctx):
    kernel.run_tables(ctx, 'C03', [
        ('Environment', 'run'), ('Environment', 'step'), ('StopSimulation', 'callback'),
    ])
    deps.layer(ctx, 'C03', kernel, deps.REALTIME)
    whomay.agenda_readers(ctx, 'C03')
    nondet.sources(ctx, 'C03')
    nondet.class_level_mutables(ctx, 'C03')
    whomay.schedule_delay_exact(ctx, 'C03')
    guards.nan_refused(ctx, 'C03', [('Environment', 'run', 'until')],
                       'a NaN stop time puts an unordered key on the agenda: run() returns after an arbitrary prefix of the schedule')
    return ('Static: Environment.run path table compared with the reference (numeric until refused when at <= now, '
            'fresh sentinel scheduled URGENT at at-now, stop callback only on that private sentinel; event until: value '
            'at once when processed, otherwise polled after each step so that every waiter is resumed before the stop); '
            'whole-repo scan for nondeterminism sources (wall clock, id/hash, uuid, set iteration) classified by sink. '
            'Trace equality itself is a runtime statement and is not decided.')
