"""C05 - condition events fire exactly when their predicate first holds"""
from . import kernel, whomay

def check(ctx):
    kernel.run_tables(ctx, 'C05', [
        ('Condition', '__init__'), ('Condition', '_check'), ('Condition', '_build_value'), ('Condition', '_populate_value'),
        ('Condition', '_remove_check_callbacks'), ('Condition', 'all_events'), ('Condition', 'any_events'),
        ('AllOf', '__init__'), ('AnyOf', '__init__'), ('Event', '__and__'), ('Event', '__or__'),
        ('ConditionValue', '__init__'), ('ConditionValue', '__getitem__'), ('ConditionValue', 'todict'),
        ('ConditionValue', 'keys'), ('ConditionValue', 'values'), ('ConditionValue', 'items'), ('ConditionValue', '__iter__'),
        ('Event', 'succeed'), ('Event', 'fail'), ('Interruption', '_interrupt'),
    ])
    whomay.condition_detachers(ctx, 'C05')
    return ('Static: the Condition constructor, _check, _build_value/_populate_value, _remove_check_callbacks, the two '
            'predicates and the ConditionValue accessors compared with reference tables (count once, fail on operand '
            'failure with defuse, succeed when evaluate holds, value built at processing time from processed leaves in '
            'operand order, foreign environments refused before any subscription).')
