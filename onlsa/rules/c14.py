"""C14 - WFQ and VirtualClock transmit in virtual-finish-stamp order"""
from . import sched as S, resources as R, elements, keydomains, deps

def check(ctx):
    S.run_tables(ctx, 'C14', [('WFQ', '__init__'), ('WFQ', 'update_vtime'), ('WFQ', 'reset_vtime'), ('WFQ', 'run'), ('WFQ', 'serve'),
                              ('WFQ', 'put'), ('VC', '__init__'), ('VC', 'run'), ('VC', 'put'),
                              ('Scheduler', 'send_packet'), ('Scheduler', 'add_packet_to_queue')])
    R.run_tables(ctx, 'C14', [('PriorityStore', '_do_put@unbounded'), ('PriorityStore', '_do_get'), ('PriorityItem', '__lt__')])
    elements.stamp_keys(ctx, 'C14')
    elements.departure_bookkeeping_atomic(ctx, 'C14', only=('WFQ', 'VC'))
    keydomains.check(ctx, 'C14', only=('WFQ', 'VC'))
    elements.class_method_sets(ctx, 'C14', only=('WFQ', 'VC'))
    deps.element_layers(ctx, 'C14')
    return ('Static: WFQ.put (stamp max(F_c, V) + 8*size/(rate*w_c) on every path, V updated before stamping), '
            'update_vtime/reset_vtime, WFQ.run (V advanced after each transmission with the classes backlogged during it), '
            'VC.put (auxVC = max(now, auxVC) + vtick) compared with reference tables; the heap key is a PriorityItem whose '
            'priority ends in a strictly increasing arrival number and never compares packets. The weighted service bound '
            'follows from stamp-order service and is not mechanised.')
