"""C08 - packets are never lost, duplicated or invented between source and sink"""
from . import netdev as N, sched as S, resources as R, elements, deps

PUTS = [('Port', 'put'), ('Port', 'run'), ('Port', '__init__'), ('REDPort', 'put'), ('REDPort', '__init__'),
        ('Wire', 'put'), ('Wire', 'run'), ('Wire', '__init__'),
        ('TokenBucket', 'put'), ('TokenBucket', 'run'), ('TokenBucket', '__init__'),
        ('TwoRateTokenBucket', 'put'), ('TwoRateTokenBucket', 'run'), ('TwoRateTokenBucket', '__init__'),
        ('FlowDemux', 'put'), ('FlowDemux', '__init__'), ('RandomDemux', 'put'), ('FIBDemux', 'put'), ('FIBDemux', '__init__'),
        ('SimplePacketSwitch', 'put'), ('SimplePacketSwitch', '__init__'), ('FairPacketSwitch', 'put'),
        ('FairPacketSwitch', '__init__'),
        ('DistPacketGenerator', 'run'), ('DistPacketGenerator', '__init__'), ('PacketSink', 'put'), ('PacketSink', '__init__'),
        ('Packet', '__init__'), ('Device', 'element_id'), ('Device', 'element_id.setter'), ('OutMixIn', 'out'),
        ('OutMixIn', 'out.setter')]
SCHED = [('Scheduler', '__init__'), ('Scheduler', 'send_packet'), ('Scheduler', 'add_packet_to_queue'),
         ('Scheduler', 'total_packets'), ('MultiQueueScheduler', '__init__'), ('MultiQueueScheduler', 'put'),
         ('SP', 'run'), ('SP', 'put'), ('SP', '__init__'), ('WFQ', 'run'), ('WFQ', 'serve'), ('DRR', 'serve'), ('WFQ', 'put'), ('WFQ', '__init__'), ('VC', 'run'),
         ('VC', 'put'), ('VC', '__init__'), ('DRR', 'run'), ('DRR', 'put'), ('DRR', '__init__'), ('RR', 'run'),
         ('RR', '__init__'), ('WRR', 'run'), ('WRR', '__init__')]
STORE = [('Store', '_do_put@unbounded'), ('Store', '_do_get'), ('PriorityStore', '_do_put@unbounded'),
         ('PriorityStore', '_do_get'), ('PriorityItem', '__lt__'), ('StorePut', '__init__')]

def check(ctx):
    N.run_tables(ctx, 'C08', PUTS)
    S.run_tables(ctx, 'C08', SCHED)
    R.run_tables(ctx, 'C08', STORE)
    elements.registry(ctx, 'C08')
    elements.put_disposes_once(ctx, 'C08')
    elements.run_forwards_dequeued(ctx, 'C08')
    elements.store_shape_agreement(ctx, 'C08')
    elements.packet_identity_writers(ctx, 'C08')
    elements.state_asserts(ctx, 'C08')
    elements.spawn_sites(ctx, 'C08')
    elements.class_method_sets(ctx, 'C08')
    deps.element_layers(ctx, 'C08')
    return ('Static, per element: every class with put(packet) is classified in a registry (unclassified = undecided); '
            'put() and run() path tables of ports, wires, token buckets, all schedulers, demuxes, switches, generator and '
            'sink compared with reference tables; path rules: every put() path disposes of the packet exactly once '
            '(hold / forward / counted drop / documented no-route), every run() iteration forwards the dequeued packet at '
            'most once and never a copy; producer/consumer shape agreement on each element store; packet identity fields '
            'written only in Packet.__init__ (+ the sender re-stamp); no assert on state that the same loop sets to 0. '
            'Quiescence of arbitrary pipelines is a run-time statement and is not decided.')
