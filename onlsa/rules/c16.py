"""C16 - TCP acknowledgements are cumulative and correct; all data gets through"""
from . import tcp as T, netdev as N, elements, deps

def check(ctx):
    T.run_tables(ctx, 'C16', [('TCPSink', '__init__'), ('TCPSink', 'packet_arrived'), ('TCPSink', 'put'),
                              ('TCPPacketGenerator', '__init__'), ('TCPPacketGenerator', 'run'),
                              ('TCPPacketGenerator', 'timeout_callback'), ('TCPPacketGenerator', 'put'),
                              ('TCPPacketGenerator', 'resend_packet'),
                              ('Timer', '__init__'), ('Timer', 'run'), ('Timer', 'stop'), ('Timer', 'restart'),
                              ('CongestionControl', '__init__'), ('CongestionControl', 'timer_expired'),
                              ('CongestionControl', 'dupack_over'), ('CongestionControl', 'consecutive_dupacks_received'),
                              ('CongestionControl', 'more_dupacks_received'), ('TCPReno', 'ack_received'),
                              ('TCPCubic', '__init__'), ('TCPCubic', 'cubic_reset'), ('TCPCubic', 'timer_expired'),
                              ('TCPCubic', 'cubic_update'), ('TCPCubic', 'cubic_tcp_friendliness'),
                              ('TCPCubic', 'ack_received')])
    elements.ack_depends_on_buffer_only(ctx, 'C16')
    elements.ack_offset_constant(ctx, 'C16')
    elements.timer_args_shape(ctx, 'C16')
    elements.network_keys_guarded(ctx, 'C16')
    deps.element_layers(ctx, 'C16')
    return ('Static: TCPSink.packet_arrived/put (ACK = end of the first merged range iff it starts at 0, else 0; no data '
            'dependence on the arriving segment), the sender\'s run/put/timeout_callback/resend_packet and the Timer '
            'compared with reference tables; the retransmission chain exists and is callable (timer armed per segment, '
            'callback retransmits, doubles the RTO and re-arms on every path); splat shape of Timer args; network-supplied '
            'keys guarded before subscripting; the ACK class offset is one literal. Liveness over all loss patterns is not '
            'decided (declared not applicable to this technique).')
