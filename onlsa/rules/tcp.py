"""Reference tables for the simplified TCP (C16, C17), the Timer (C19), the
fat-tree topology and flow records (C18)."""
from ..compare import View

TVIEW = View(ignore_calls=('print', 'dprint'))
SPECS = {}


def spec(cls, meth, what='', view=None, opts=None, ctx=None):
    def deco(src):
        SPECS[(cls, meth, ctx)] = dict(cls=cls, meth=meth, src=src, what=what, view=view, opts=opts, ctx=ctx)
        return src
    return deco


# ------------------------------------------------------------------ tcp_sink.py

spec('TCPSink', '__init__')('''
def __init__(self, env, rec_arrivals=True, absolute_arrivals=True, rec_waits=True, rec_flow_ids=True, debug=False):
    super().__init__(env, rec_arrivals, absolute_arrivals, rec_waits, rec_flow_ids, debug)
    self.recv_buffer = list()
    self.next_seq_expected = 0
''')

spec('TCPSink', 'packet_arrived', what='append [id, id+size], sort, merge ranges that touch or overlap keeping the larger end')('''
def packet_arrived(self, packet):
    self.recv_buffer.append([packet.packet_id, packet.packet_id + packet.size])
    self.recv_buffer.sort()
    merge_stats = []
    for start, end in self.recv_buffer:
        if merge_stats and start <= merge_stats[-1][1]:
            merge_stats[-1][1] = max(merge_stats[-1][1], end)
        else:
            merge_stats.append([start, end])
    self.recv_buffer = merge_stats
''')

SINKPUT_VIEW = View(ignore_calls=('print', 'dprint', 'format', 'sum', 'float'))
from ..paths import Options as _Options
SINKPUT_OPTS = _Options(no_inline={'put'})

spec('TCPSink', 'put', view=SINKPUT_VIEW, opts=SINKPUT_OPTS,
     what='record like a sink; merge; ACK = end of the first range iff it starts at byte 0, else 0 (a function of the '
          'receive buffer only); ACK packet carries the segment\'s time, id and flow + 10000; sent once')('''
def put(self, packet):
    super().put(packet)
    self.packet_arrived(packet)
    if self.recv_buffer[0][0] == 0:
        self.next_seq_expected = self.recv_buffer[0][1]
    else:
        self.next_seq_expected = 0
    acknowledgement = Packet(packet.time, size=40, packet_id=packet.packet_id, flow_id=packet.flow_id + 10000)
    acknowledgement.ack = self.next_seq_expected
    assert self.out is not None
    self.out.put(acknowledgement)
''')

# ------------------------------------------------------------------ tcp_generator.py : congestion control

spec('CongestionControl', '__init__')('''
def __init__(self, mss=512, cwnd=512, ssthresh=65535, debug=False):
    self.mss = mss
    self.cwnd = cwnd
    self.ssthresh = ssthresh
    self.debug = debug
''')

spec('CongestionControl', 'timer_expired', what='timeout: cwnd := one MSS')('''
def timer_expired(self):
    self.cwnd = self.mss
''')

spec('CongestionControl', 'dupack_over', what='leaving fast recovery: cwnd := ssthresh')('''
def dupack_over(self):
    self.cwnd = self.ssthresh
''')

spec('CongestionControl', 'consecutive_dupacks_received', what='ssthresh := max(2 MSS, cwnd/2); cwnd := new ssthresh + 3 MSS')('''
def consecutive_dupacks_received(self):
    self.ssthresh = max(2 * self.mss, self.cwnd / 2)
    self.cwnd = max(2 * self.mss, self.cwnd / 2) + 3 * self.mss
''')

spec('CongestionControl', 'more_dupacks_received', what='each further duplicate: cwnd += MSS')('''
def more_dupacks_received(self):
    self.cwnd += self.mss
''')

spec('TCPReno', 'ack_received', what='slow start (cwnd <= ssthresh): += MSS; congestion avoidance: += MSS*MSS/cwnd')('''
def ack_received(self, rtt=0, current_time=0):
    if self.cwnd <= self.ssthresh:
        self.cwnd += self.mss
    else:
        self.cwnd += self.mss * self.mss / self.cwnd
''')

spec('TCPCubic', '__init__')('''
def __init__(self, mss=512, cwnd=512, ssthresh=65535, debug=False):
    super().__init__()
    self.W_last_max = 0
    self.epoch_start = None
    self.origin_point = 0
    self.d_min = 0
    self.W_tcp = 0
    self.K = 0
    self.ack_cnt = 0
    self.tcp_friendliness = True
    self.fast_convergence = True
    self.beta = 0.2
    self.C = 0.4
    self.cwnd_cnt = 0
    self.cnt = 0
''')

spec('TCPCubic', 'cubic_reset')('''
def cubic_reset(self):
    self.W_last_max = 0
    self.epoch_start = None
    self.origin_point = 0
    self.d_min = 0
    self.W_tcp = 0
    self.K = 0
    self.ack_cnt = 0
''')

spec('TCPCubic', 'timer_expired', what='timeout: cwnd := one MSS and the epoch is reset')('''
def timer_expired(self):
    self.cwnd = self.mss
    self.cubic_reset()
''')

spec('TCPCubic', 'cubic_update', what='a new epoch starts iff none is running (a marker, not a comparison of the start time with 0: the clock may start below 0 or an ACK arrive at exactly 0); K, origin, W_tcp set at its start; cnt from the cubic target')('''
def cubic_update(self, current_time):
    self.ack_cnt += 1
    if self.epoch_start is None:
        self.epoch_start = current_time
        if self.cwnd < self.W_last_max:
            self.K = ((self.W_last_max - self.cwnd) / self.C) ** (1.0 / 3)
        else:
            self.K = 0
            self.origin_point = self.cwnd
        self.ack_cnt = 1
        self.W_tcp = self.cwnd
    t = current_time + self.d_min - self.epoch_start
    target = self.origin_point + self.C * (t - self.K) ** 3
    if target > self.cwnd:
        self.cnt = self.cwnd / (target - self.cwnd)
    else:
        self.cnt = 100 * self.cwnd
    if self.tcp_friendliness:
        self.cubic_tcp_friendliness()
''')

spec('TCPCubic', 'cubic_tcp_friendliness')('''
def cubic_tcp_friendliness(self):
    self.W_tcp += 3 * self.beta / (2 - self.beta) * (self.ack_cnt / self.cwnd)
    self.ack_cnt = 0
    if self.W_tcp > self.cwnd:
        max_cnt = self.cwnd / (self.W_tcp - self.cwnd)
        if self.cnt > max_cnt:
            self.cnt = max_cnt
''')

spec('TCPCubic', 'ack_received', what='min-RTT tracking; slow start += MSS; else cubic update and += MSS iff cwnd_cnt > cnt')('''
def ack_received(self, rtt=0, current_time=0):
    if self.d_min > 0:
        self.d_min = min(self.d_min, rtt)
    else:
        self.d_min = rtt
    if self.cwnd <= self.ssthresh:
        self.cwnd += self.mss
    else:
        self.cubic_update(current_time)
        if self.cwnd_cnt > self.cnt:
            self.cwnd += self.mss
            self.cwnd_cnt = 0
        else:
            self.cwnd_cnt += 1
''')

# ------------------------------------------------------------------ tcp_generator.py : sender

spec('TCPPacketGenerator', '__init__')('''
def __init__(self, env, flow, cc, element_id=None, rtt_estimate=1.0, debug=False):
    self.element_id = element_id
    self.env = env
    self.flow = flow
    self.congestion_control = cc
    self.mss = 512
    self.last_arrival = 0
    self.next_seq = 0
    self.send_buffer = 0
    self.last_ack = 0
    self.dupack = 0
    self.rtt_estimate = rtt_estimate
    self.rto = self.rtt_estimate * 2
    self.est_deviation = 0
    self.cwnd_avaialbe = Store(env)
    self.timers = dict()
    self.sent_packets = dict()
    self.action = env.process(self.run(env))
    self.debug = debug
''')

spec('TCPPacketGenerator', 'run', what='application data fetched until a full segment is buffered (or the flow is exhausted); new segment only while next_seq + MSS <= min(buffered, last_ack + cwnd): MSS-sized, '
                                       'numbered next_seq, remembered, sent once, next_seq advanced, timer armed with the '
                                       'current RTO calling timeout_callback(id); otherwise wait for a window token')('''
def run(self, env):
    if self.flow.start_time:
        yield env.timeout(self.flow.start_time)
    while self.flow.finish_time is None or env.now < self.flow.finish_time:
        if self.flow.size is not None and self.next_seq >= self.flow.size:
            return
        while self.send_buffer < self.next_seq + self.mss and (self.flow.size is None or self.send_buffer < self.flow.size):
            if self.flow.arrival_dist:
                wait_time = self.flow.arrival_dist() - (self.env.now - self.last_arrival)
                if wait_time > 0:
                    yield env.timeout(wait_time)
                self.last_arrival = env.now
            packet_size = 0
            if self.flow.size_dist:
                packet_size = self.flow.size_dist()
            else:
                if self.flow.size is not None:
                    packet_size = min(self.mss, self.flow.size - self.next_seq)
                else:
                    packet_size = self.mss
            self.send_buffer += packet_size
        if self.next_seq + self.mss <= min(self.send_buffer, self.last_ack + self.congestion_control.cwnd):
            packet = Packet(time=env.now, size=self.mss, packet_id=self.next_seq, src=self.flow.src, flow_id=self.flow.flow_id)
            self.sent_packets[packet.packet_id] = packet
            self.next_seq += packet.size
            self.timers[packet.packet_id] = Timer(env, timeout=self.rto, timeout_callback=self.timeout_callback, args=packet.packet_id)
            assert self.out
            self.out.put(packet)
        else:
            yield self.cwnd_avaialbe.get()
''')

spec('TCPPacketGenerator', 'timeout_callback', what='timeout: cwnd rule, fast recovery is over (duplicate count reset), double the sender\'s RTO and re-arm the segment\'s timer with it, then '
                                                    'retransmit the segment (the ACK may come back synchronously and remove the timer) - on every path')('''
def timeout_callback(self, packet_id):
    self.congestion_control.timer_expired()
    self.dupack = 0
    self.rto *= 2
    self.timers[packet_id].restart(self.rto)
    self.resend_packet(packet_id)
''')

spec('TCPPacketGenerator', 'put', what='duplicate ACK counted; new ACK leaves fast recovery (dupack >= 3 -> dupack_over) and '
                                       'resets the counter; third duplicate: window rule + retransmit; further: += MSS; new '
                                       'ACK: Jacobson/Karels with gains 1/8, 1/4, RTO = srtt + 4 rttvar, last_ack, window '
                                       'rule, the timer and the stored copy of *every* segment the cumulative ACK covers (and of the segment that '
                                       'triggered it) dropped, window token posted')('''
def put(self, ack):
    assert ack.flow_id >= 10000
    ackno = ack.ack
    if ackno < self.last_ack:
        return
    if ackno == self.last_ack:
        self.dupack += 1
    else:
        if self.dupack >= 3:
            self.congestion_control.dupack_over()
        self.dupack = 0
    if self.dupack == 3:
        self.congestion_control.consecutive_dupacks_received()
        self.resend_packet(ackno)
        return
    elif self.dupack > 3:
        self.congestion_control.more_dupacks_received()
        if self.last_ack + self.congestion_control.cwnd >= ackno:
            self.resend_packet(ackno)
        return
    if self.dupack == 0:
        sample_rtt = self.env.now - ack.time
        sample_err = sample_rtt - self.rtt_estimate
        self.rtt_estimate += sample_err / 8
        self.est_deviation += (abs(sample_err) - self.est_deviation) / 4
        self.rto = self.rtt_estimate + 4 * self.est_deviation
        self.last_ack = ackno
        self.congestion_control.ack_received(sample_rtt, self.env.now)
        for pid in [p for p in self.timers if p < ackno or p == ack.packet_id]:
            self.timers[pid].stop()
            del self.timers[pid]
            del self.sent_packets[pid]
        self.cwnd_avaialbe.put(True)
''')

spec('TCPPacketGenerator', 'resend_packet', what='unknown sequence numbers ignored; the stored segment re-stamped and sent once')('''
def resend_packet(self, seqno):
    if seqno not in self.sent_packets:
        return
    resent_pkt = self.sent_packets[seqno]
    resent_pkt.time = self.env.now
    assert self.out
    self.out.put(resent_pkt)
''')

# ------------------------------------------------------------------ utils/timer.py

spec('Timer', '__init__', what='positive timeout; expiry = now + timeout; None -> no args, scalar -> one arg, list/tuple as is')('''
def __init__(self, env, timeout, timeout_callback, auto_restart=False, args=None, kwargs=None):
    if timeout <= 0:
        raise ValueError()
    self.env = env
    self.timeout = timeout
    self.timeout_callback = timeout_callback
    self.start_time = self.env.now
    self.expire_time = self.env.now + timeout
    self.auto_restart = auto_restart
    self.stopped = False
    self.armed = True
    if args is None:
        self.args = []
    elif isinstance(args, (list, tuple)):
        self.args = args
    else:
        self.args = [args]
    if kwargs is not None:
        self.kwargs = kwargs
    else:
        self.kwargs = {}
    self.proc = env.process(self.run(env))
''')

spec('Timer', 'run', what='while an expiry is pending (a flag, not a clock comparison: a period below the resolution of '
                          'the clock gives expiry == now and must still fire; the flag is consumed only after the sleep, so a sleeper '
                          'interrupted by restart() leaves it to its successor): sleep exactly until expire_time; then '
                          'callback(*args, **kwargs) iff not stopped; re-arm now + timeout iff auto_restart; an interrupt '
                          'ends the process silently')('''
def run(self, env):
    try:
        while self.armed:
            yield self.env.timeout(self.expire_time - env.now)
            self.armed = False
            if not self.stopped:
                self.timeout_callback(*self.args, **self.kwargs)
                if self.auto_restart:
                    self.expire_time = env.now + self.timeout
                    self.armed = True
    except Interrupt as _:
        pass
''')

spec('Timer', 'wait')('''
def wait(self):
    yield self.proc
''')

spec('Timer', 'stop', what='stop always takes effect: flag set, nothing pending any more, expiry pulled to now')('''
def stop(self):
    self.stopped = True
    self.armed = False
    self.expire_time = self.env.now
''')

spec('Timer', 'restart', what='new period and expiry = now + tau; from the own callback: nothing else (run re-reads the '
                              'expiry); otherwise a live sleeper is interrupted and a new sleeper is started in any case')('''
def restart(self, timeout):
    self.start_time = self.env.now
    self.timeout = timeout
    self.expire_time = self.env.now + timeout
    self.armed = True
    if self.proc is self.env.active_process:
        return
    if self.proc.is_alive:
        self.proc.interrupt("restart timer")
    self.proc = self.env.process(self.run(self.env))
''')

# ------------------------------------------------------------------ topo/fattree.py

spec('FatTree', '__init__', what='(k/2)^2 core; per pod k/2 aggregation + k/2 edge fully meshed; core c - aggregation '
                                 'n_core + c div (k/2) + k*pod; k/2 hosts per edge switch; odd / non-positive k refused')('''
def __init__(self, k):
    if not isinstance(k, int):
        raise TypeError()
    if k < 1 or k % 2 == 1:
        raise ValueError()
    topo = nx.Graph()
    topo.name = "fat_tree_topology(%d)" % (k)
    n_core = (k // 2) ** 2
    topo.add_nodes_from([v for v in range(int(n_core))], layer='core', type='switch')
    for pod in range(k):
        aggr_start_node = topo.number_of_nodes()
        aggr_end_node = aggr_start_node + k // 2
        edge_start_node = aggr_end_node
        edge_end_node = edge_start_node + k // 2
        aggr_nodes = range(aggr_start_node, aggr_end_node)
        edge_nodes = range(edge_start_node, edge_end_node)
        topo.add_nodes_from(aggr_nodes, layer='aggregation', type='switch', pod=pod)
        topo.add_nodes_from(edge_nodes, layer='edge', type='switch', pod=pod)
        topo.add_edges_from([(u, v) for u in aggr_nodes for v in edge_nodes], type='aggregation_edge')
    for core_node in range(n_core):
        for pod in range(k):
            aggr_node = n_core + (core_node // (k // 2)) + (k * pod)
            topo.add_edge(core_node, aggr_node, type='core_aggregation')
    for u in [v for v in topo.nodes() if topo.nodes[v]['layer'] == 'edge']:
        leaf_nodes = range(topo.number_of_nodes(), topo.number_of_nodes() + k // 2)
        topo.add_nodes_from(leaf_nodes, layer='leaf', type='host', pod=topo.nodes[u]['pod'])
        topo.add_edges_from([(u, v) for v in leaf_nodes], type='edge_leaf')
    self._topo = topo
    hosts = set()
    for n in topo.nodes():
        if topo.nodes[n]["type"] == "host":
            hosts.add(n)
    self._hosts = hosts
''')

spec('FatTree', 'topo')('''
def topo(self):
    return self._topo
''')
spec('FatTree', 'hosts')('''
def hosts(self):
    return self._hosts
''')

spec('FatTree', 'generate_flows', what='two distinct hosts drawn from the sorted host list; path = one of the shortest paths')('''
def generate_flows(self, nflows, size=None, start_time=None, finish_time=None, arrival_dist=None, size_dist=None):
    all_flows = dict()
    for flow_id in range(nflows):
        src, dst = sample(sorted(self.hosts), 2)
        all_flows[flow_id] = Flow(flow_id, src, dst, size=size, start_time=start_time, finish_time=finish_time,
                                  arrival_dist=arrival_dist, size_dist=size_dist)
        all_flows[flow_id].path = sample(list(nx.all_shortest_paths(self.topo, src, dst)), 1)[0]
    return all_flows
''')

spec('FatTree', 'generate_fib', what='per node mutually inverse port/next-hop tables; per consecutive pair (a, z) of a flow\'s '
                                     'path: flow -> port towards z at a; with tcp: flow + 10000 -> port towards a at z')('''
def generate_fib(self, all_flows, tcp=False):
    for n in self.topo.nodes():
        node = self.topo.nodes[n]
        node["port_to_nexthop"] = dict()
        node["nexthop_to_port"] = dict()
        for port, nh in enumerate(nx.neighbors(self.topo, n)):
            node["nexthop_to_port"][nh] = port
            node["port_to_nexthop"][port] = nh
        node["flow_to_port"] = dict()
        node["flow_to_nexthop"] = dict()
    for f in all_flows:
        flow = all_flows[f]
        path = list(zip(flow.path, flow.path[1:]))
        for seg in path:
            a, z = seg
            self.topo.nodes[a]["flow_to_port"][flow.fid] = self.topo.nodes[a]["nexthop_to_port"][z]
            self.topo.nodes[a]["flow_to_nexthop"][flow.fid] = z
            if tcp:
                self.topo.nodes[z]["flow_to_port"][flow.fid + 10000] = self.topo.nodes[z]["nexthop_to_port"][a]
                self.topo.nodes[z]["flow_to_nexthop"][flow.fid + 10000] = a
''')


def run_tables(ctx, prefix, keys):
    for k in keys:
        if len(k) == 2:
            k = (k[0], k[1], None)
        d = SPECS[k]
        c, m, cx = k
        ctx.table('%s.T.%s.%s%s' % (prefix, c, m, '@' + cx if cx else ''), c, m, d['src'], d['view'] or TVIEW, d['opts'],
                  own=True, ctx_cls=cx, what=d['what'] or '%s.%s as the property requires' % (c, m))
