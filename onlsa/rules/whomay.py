"""whole-repository who-may scans (kind D rules)"""
import ast
from ..model import walk_local, AnalysisError
from ..paths import MUTATORS


def _attr_chain(n):
    parts = []
    while isinstance(n, ast.Attribute):
        parts.append(n.attr)
        n = n.value
    if isinstance(n, ast.Name):
        parts.append(n.id)
    else:
        parts.append('?')
    return list(reversed(parts))


def attr_writers(repo, attr):
    """(FuncInfo, node, kind) for every store / mutation of `<anything>.<attr>` in the repo"""
    out = []
    for f in repo.all_functions():
        # local aliases of the protected object:  users = self._users ; users.append(x)
        aliases = set()
        for n in walk_local(f.node):
            if isinstance(n, ast.Assign) and len(n.targets) == 1 and isinstance(n.targets[0], ast.Name) \
                    and isinstance(n.value, ast.Attribute) and n.value.attr == attr:
                aliases.add(n.targets[0].id)
        if aliases:
            for n in walk_local(f.node):
                if isinstance(n, ast.Call) and isinstance(n.func, ast.Attribute) and n.func.attr in MUTATORS \
                        and isinstance(n.func.value, ast.Name) and n.func.value.id in aliases:
                    out.append((f, n, 'call %s (through alias %s)' % (n.func.attr, n.func.value.id)))
                if isinstance(n, (ast.Assign, ast.AugAssign, ast.Delete)):
                    ts = n.targets if isinstance(n, (ast.Assign, ast.Delete)) else [n.target]
                    for t in ts:
                        if isinstance(t, ast.Subscript) and isinstance(t.value, ast.Name) and t.value.id in aliases:
                            out.append((f, n, 'element store (through alias %s)' % t.value.id))
        for n in walk_local(f.node):
            tgts = []
            if isinstance(n, ast.Assign):
                tgts = [(t, 'assign') for t in n.targets]
            elif isinstance(n, ast.AugAssign):
                tgts = [(n.target, 'augassign')]
            elif isinstance(n, ast.AnnAssign) and n.value is not None:
                tgts = [(n.target, 'assign')]
            elif isinstance(n, ast.Delete):
                tgts = [(t, 'del') for t in n.targets]
            elif isinstance(n, ast.Call):
                fn = n.func
                if isinstance(fn, ast.Attribute) and fn.attr in MUTATORS and isinstance(fn.value, ast.Attribute) \
                        and fn.value.attr == attr:
                    out.append((f, n, 'call ' + fn.attr))
                if isinstance(fn, ast.Name) and fn.id in ('setattr', 'delattr') and len(n.args) >= 2 and \
                        isinstance(n.args[1], ast.Constant) and n.args[1].value == attr:
                    out.append((f, n, fn.id))
                # heapq.heappush(x.attr, ..), heappop(x.attr)
                if (isinstance(fn, ast.Name) and fn.id in ('heappush', 'heappop', 'heapify', 'heapreplace', 'heappushpop')
                        or isinstance(fn, ast.Attribute) and fn.attr in ('heappush', 'heappop', 'heapify', 'heapreplace',
                                                                          'heappushpop')) and n.args:
                    a0 = n.args[0]
                    if isinstance(a0, ast.Attribute) and a0.attr == attr:
                        out.append((f, n, 'call ' + (fn.id if isinstance(fn, ast.Name) else fn.attr)))
            flat = []
            for t, k in tgts:
                if isinstance(t, (ast.Tuple, ast.List)):
                    flat.extend((e, k) for e in t.elts)
                else:
                    flat.append((t, k))
            for t, k in flat:
                base = t
                sub = False
                while isinstance(base, ast.Subscript):
                    base = base.value
                    sub = True
                if isinstance(base, ast.Attribute) and base.attr == attr:
                    out.append((f, n, k + ('[]' if sub else '')))
    return out


_DISPATCH_NAMES = {'_do_put', '_do_get', '_trigger_put', '_trigger_get', '_resume', '_check', '_interrupt', '_build_value',
                   '_populate_value', '_remove_check_callbacks', '_desc'}


def root_callers(repo, f, _seen=None, stop=()):
    """a private helper (``_name``, not overriding anything) acts on behalf of the methods that call it through
    ``self._name(...)``: return the qualnames of those root callers (the function itself when it is not a helper,
    or when it is one of the `stop` methods)"""
    _seen = _seen or set()
    if f.qualname in stop:
        return {f.qualname}
    if f.cls is None or not f.name.startswith('_') or f.name.startswith('__') or f.node in _seen:
        return {f.qualname}
    _seen.add(f.node)
    for b in f.cls.mro()[1:]:
        if f.name in b.methods and f.name in _DISPATCH_NAMES:
            return {f.qualname}           # overrides a dispatch method of the kernel: judged on its own
    # (a private hook that a base introduces and a subclass overrides acts for whoever calls the hook)
    callers = set()
    family = [c for c in repo.all_classes() if f.cls in c.mro() or c in f.cls.mro()]
    for c in family:
        for g in c.methods.values():
            if g.node is f.node:
                continue
            for n in walk_local(g.node):
                if isinstance(n, ast.Call) and isinstance(n.func, ast.Attribute) and n.func.attr == f.name \
                        and isinstance(n.func.value, ast.Name) and n.func.value.id == 'self':
                    callers |= root_callers(repo, g, _seen, stop)
    return callers or {f.qualname}


def acting_as(repo, f, allowed) -> bool:
    """is f one of the allowed methods, or a private helper used only by allowed methods?"""
    if f.qualname in allowed:
        return True
    roots = root_callers(repo, f, stop=tuple(allowed))
    return bool(roots) and roots != {f.qualname} and all(r in allowed for r in roots)


def check_writers(ctx, rule, attr, allowed, floor, what):
    """allowed: {qualname: reason}.  Every writer of .<attr> anywhere must be in the table."""
    # a private attribute that a table of this run found renamed in its whole class is looked for under its new name
    for m in ctx.__dict__.get('_priv_maps', {}).values():
        attr = m.get(attr, attr)
    sites = attr_writers(ctx.repo, attr)
    ctx.stats['sites_scanned'] += len(sites)
    ctx.floor(rule, len(sites), floor, 'writer sites of .%s' % attr)
    for f, n, kind in sites:
        ctx.touch(f)
        q = f.qualname
        ok = acting_as(ctx.repo, f, allowed)
        ctx.ob(rule, ok)
        if ok:
            ctx.sample(rule, '%s::%s' % (f.module.relpath, q), 'writer of .%s (%s) is in the owner table: %s' % (attr, kind, allowed.get(q, 'helper of an owner')))
        else:
            ctx.violation(rule, '%s::%s' % (f.module.relpath, q), 'writer of .%s: %s' % (attr, kind),
                          '%s: %s writes .%s (%s); only %s may' % (what, q, attr, kind, ', '.join(sorted(allowed))),
                          where='%s:%d' % (f.module.relpath, n.lineno))


def kernel_state_writers(ctx, prop):
    check_writers(ctx, prop + '.W.clock', '_now', {
        'Environment.__init__': 'initial time', 'Environment.step': 'clock := time of the popped key'}, 2,
        'the simulation clock is written only from popped agenda keys')
    check_writers(ctx, prop + '.W.agenda', '_queue', {
        'Environment.__init__': 'empty agenda', 'Environment.schedule': 'heappush', 'Environment.step': 'heappop',
        'Environment.run': 'heappush of the private until-sentinel at exactly the stop time',
        'Resource.__init__': 'Resource._queue is the request queue alias (different object)'}, 3,
        'the agenda is mutated only by schedule (push) and step (pop)')
    check_writers(ctx, prop + '.W.counter', '_eid', {'Environment.__init__': 'fresh counter'}, 1,
                  'the insertion counter is created once and only advanced by next()')
    # _eid is read only inside next(...)
    rule = prop + '.W.counter.reads'
    n = 0
    for f in ctx.repo.all_functions():
        for node in walk_local(f.node):
            if isinstance(node, ast.Attribute) and node.attr == '_eid' and isinstance(node.ctx, ast.Load):
                n += 1
                ok = root_callers(ctx.repo, f, stop=('Environment.schedule', 'Environment.run')) <= {'Environment.schedule', 'Environment.run'}
                ctx.ob(rule, ok)
                if not ok:
                    ctx.violation(rule, '%s::%s' % (f.module.relpath, f.qualname), 'read of ._eid',
                                  'insertion counter read outside Environment.schedule', where='%s:%d' % (f.module.relpath, node.lineno))
    ctx.floor(rule, n, 1, 'reads of ._eid')


PRIORITY_TABLE = {
    # caller qualname -> expected priority class of every schedule() call in it
    'Initialize.__init__': ('URGENT', 'a process must start before it can be interrupted'),
    'Interruption.__init__': ('URGENT', 'interrupts precede ordinary events of the instant'),
    'Environment.run': ('URGENT', 'the until-sentinel stops before anything due at t'),
    'Timeout.__init__': ('NORMAL', 'ordinary event'),
    'Event.trigger': ('NORMAL', 'ordinary event'),
    'Event.succeed': ('NORMAL', 'ordinary event'),
    'Event.fail': ('NORMAL', 'ordinary event'),
    'Process._resume': ('NORMAL', 'process termination is an ordinary event'),
}


def schedule_sites(ctx, prop):
    """every call of <x>.schedule(...) in the repo: priority argument per the table"""
    rule = prop + '.W.priority'
    n = 0
    for f in ctx.repo.all_functions():
        for node in walk_local(f.node):
            is_sched = isinstance(node, ast.Call) and isinstance(node.func, ast.Attribute) and node.func.attr == 'schedule'
            # a direct push onto the agenda outside schedule() is a scheduling site too: (time, priority, id, event)
            is_push = isinstance(node, ast.Call) and isinstance(node.func, ast.Name) and node.func.id == 'heappush' \
                and len(node.args) == 2 and isinstance(node.args[0], ast.Attribute) and node.args[0].attr == '_queue' \
                and root_callers(ctx.repo, f, stop=('Environment.schedule',)) != {'Environment.schedule'}
            if is_sched or is_push:
                n += 1
                ctx.touch(f)
                pr = None
                if is_push:
                    tup = node.args[1]
                    pr = tup.elts[1] if isinstance(tup, ast.Tuple) and len(tup.elts) == 4 else ast.Constant(value='?')
                elif len(node.args) >= 2:
                    pr = node.args[1]
                for k in node.keywords:
                    if k.arg == 'priority':
                        pr = k.value
                got = 'NORMAL' if pr is None else (pr.id if isinstance(pr, ast.Name) else ast.unparse(pr))
                q = f.qualname
                if q not in PRIORITY_TABLE:
                    roots = root_callers(ctx.repo, f, stop=tuple(PRIORITY_TABLE))
                    if len(roots) == 1 and next(iter(roots)) in PRIORITY_TABLE:
                        q = next(iter(roots))
                    elif roots and all(r in PRIORITY_TABLE or r == 'Environment.schedule' for r in roots) and f.cls is not None:
                        # a private helper shared by several classified sites (`_settle` for succeed and fail; `_enqueue`
                        # taking the priority as a parameter): every caller must get the priority the table gives *it*
                        bad_root = None
                        for r in sorted(roots):
                            # (schedule() itself hands on the priority it was given)
                            want_r = PRIORITY_TABLE[r][0] if r in PRIORITY_TABLE else 'priority'
                            got_r = got
                            if got in f.params:
                                got_r = None
                                idx = [p_ for p_ in f.params if p_ != 'self'].index(got)
                                g = next((x for x in ctx.repo.all_functions() if x.qualname == r), None)
                                for cn in (walk_local(g.node) if g is not None else []):
                                    if isinstance(cn, ast.Call) and isinstance(cn.func, ast.Attribute) and cn.func.attr == f.name:
                                        a_ = cn.args[idx] if len(cn.args) > idx else next((k_.value for k_ in cn.keywords if k_.arg == got), None)
                                        got_r = 'NORMAL' if a_ is None else (a_.id if isinstance(a_, ast.Name) else ast.unparse(a_))
                            if got_r != want_r:
                                bad_root = (r, got_r, want_r)
                                break
                        ctx.ob(rule, bad_root is None)
                        if bad_root is None:
                            ctx.sample(rule, '%s::%s' % (f.module.relpath, f.qualname), 'shared helper: every classified caller gets its own priority')
                        else:
                            ctx.violation(rule, '%s::%s' % (f.module.relpath, f.qualname), 'priority %s for %s, expected %s' % (bad_root[1], bad_root[0], bad_root[2]),
                                          '%s schedules for %s with priority %s; must be %s' % (f.qualname, bad_root[0], bad_root[1], bad_root[2]),
                                          where='%s:%d' % (f.module.relpath, node.lineno))
                        continue
                construct = '%s::%s' % (f.module.relpath, f.qualname)
                where = '%s:%d' % (f.module.relpath, node.lineno)
                if q not in PRIORITY_TABLE:
                    ctx.ob(rule, False)
                    ctx.violation(rule, construct, 'schedule site not in the priority table (%s)' % got,
                                  'new schedule() call site %s with priority %s: not classified' % (q, got), where=where)
                    continue
                want, why = PRIORITY_TABLE[q]
                ok = got == want
                ctx.ob(rule, ok)
                if ok:
                    ctx.sample(rule, construct, 'schedule(...) priority %s: %s' % (got, why))
                else:
                    ctx.violation(rule, construct, 'priority %s, expected %s' % (got, want),
                                  '%s schedules with priority %s; must be %s (%s)' % (q, got, want, why), where=where)
    ctx.floor(rule, n, 9, 'schedule() call sites')


def schedule_delay_exact(ctx, prop):
    """A due time handed to schedule() as a *difference from the current time* (delay = t - now) is queued at
    now + (t - now), which in floating point is not always t: the occurrence drifts an ulp off the instant that was
    asked for (before or after occurrences due exactly at t).  The tables cannot see this - over the reals the two
    keys are equal - so it is a rule of its own over every schedule() site of the kernel: the delay argument, with
    local temporaries resolved, must not subtract the clock."""
    rule = prop + '.G.delay-exact'
    n = 0

    def is_clock(e):
        return isinstance(e, ast.Attribute) and e.attr in ('now', '_now')

    for f in ctx.repo.all_functions():
        if not f.module.name.startswith('onl.sim'):
            continue
        assigns = {}
        for node in walk_local(f.node):
            if isinstance(node, ast.Assign) and len(node.targets) == 1 and isinstance(node.targets[0], ast.Name):
                assigns.setdefault(node.targets[0].id, []).append(node.value)

        def resolve(e, depth=0):
            if isinstance(e, ast.Name) and len(assigns.get(e.id, [])) == 1 and depth < 4:
                return resolve(assigns[e.id][0], depth + 1)
            return e

        def subtracts_clock(e, depth=0):
            e = resolve(e)
            for x in ast.walk(e):
                if isinstance(x, ast.BinOp) and isinstance(x.op, ast.Sub) and any(is_clock(y) for y in ast.walk(x.right)):
                    return True
                if isinstance(x, ast.Name) and x is not e and depth < 4 and len(assigns.get(x.id, [])) == 1 \
                        and subtracts_clock(assigns[x.id][0], depth + 1):
                    return True
            return False
        for node in walk_local(f.node):
            if isinstance(node, ast.Call) and isinstance(node.func, ast.Attribute) and node.func.attr == 'schedule':
                delay = node.args[2] if len(node.args) >= 3 else None
                for k in node.keywords:
                    if k.arg == 'delay':
                        delay = k.value
                n += 1
                bad = delay is not None and subtracts_clock(delay)
                ctx.ob(rule, not bad)
                construct = '%s::%s' % (f.module.relpath, f.qualname)
                if bad:
                    ctx.violation(rule, construct, 'delay subtracts the clock',
                                  '%s schedules with delay %s, a difference from the current time: now + (t - now) is not '
                                  'always t in floating point, the occurrence is queued an ulp off the instant asked for'
                                  % (f.qualname, ast.unparse(delay)), where='%s:%d' % (f.module.relpath, node.lineno))
                else:
                    ctx.sample(rule, construct, 'schedule() delay %s does not subtract the clock' % (ast.unparse(delay) if delay is not None else '(default 0)'))
    ctx.floor(rule, n, 5, 'schedule() call sites in the kernel')


def priority_constants(ctx, prop):
    rule = prop + '.W.constants'
    mod = ctx.repo.modules.get('onl.sim.events')
    if mod is None:
        raise AnalysisError('anchor vanished: onl.sim.events')
    vals = {}
    for nm in ('URGENT', 'NORMAL'):
        v = mod.globals.get(nm)
        if isinstance(v, ast.Call) and v.args and isinstance(v.args[0], ast.Constant):
            vals[nm] = v.args[0].value
        elif isinstance(v, ast.Constant):
            vals[nm] = v.value
        else:
            raise AnalysisError('cannot resolve constant %s' % nm)
    ok = isinstance(vals['URGENT'], int) and isinstance(vals['NORMAL'], int) and vals['URGENT'] < vals['NORMAL']
    ctx.ob(rule, ok)
    if not ok:
        ctx.violation(rule, 'onl/sim/events.py::URGENT/NORMAL', 'URGENT < NORMAL', 'URGENT=%r must sort before NORMAL=%r' % (vals['URGENT'], vals['NORMAL']))
    else:
        ctx.sample(rule, 'onl/sim/events.py', 'URGENT=%r < NORMAL=%r' % (vals['URGENT'], vals['NORMAL']))
    # default priority of schedule() is NORMAL
    f = ctx.repo.method('Environment', 'schedule')
    a = f.node.args
    names = [x.arg for x in a.args]
    dflt = dict(zip(names[len(names) - len(a.defaults):], a.defaults))
    ok = 'priority' in dflt and isinstance(dflt['priority'], ast.Name) and dflt['priority'].id == 'NORMAL' and \
        'delay' in dflt and isinstance(dflt['delay'], ast.Constant) and dflt['delay'].value == 0
    ctx.ob(rule, ok)
    if not ok:
        ctx.violation(rule, 'onl/sim/core.py::Environment.schedule', 'defaults priority=NORMAL delay=0',
                      'schedule() defaults must be priority=NORMAL, delay=0', where=f.where)
    # heappush/heappop/count resolve to the standard library
    core = ctx.repo.modules['onl.sim.core']
    for nm, want in (('heappush', 'heapq'), ('heappop', 'heapq'), ('count', 'itertools')):
        imp = core.imports.get(nm)
        ok = imp is not None and imp[0] == want and imp[1] == nm
        ctx.ob(rule, ok)
        if not ok:
            ctx.violation(rule, 'onl/sim/core.py::imports', '%s from %s' % (nm, want), '%s must be %s.%s (is %r)' % (nm, want, nm, imp))


def outcome_writers(ctx, prop):
    """stores to ._ok / ._value: on self inside __init__ of an Event subclass, or in the table"""
    rule = prop + '.W.outcome'
    table = {
        'Event.trigger': 'documented chaining', 'Event.succeed': 'trigger', 'Event.fail': 'trigger',
        'Process._resume': 'own termination', 'Condition._build_value': 'value materialised at processing',
        'Environment.run': 'fresh until-sentinel',
    }
    n = 0
    for attr in ('_ok', '_value'):
        for f, node, kind in attr_writers(ctx.repo, attr):
            n += 1
            ctx.touch(f)
            q = f.qualname
            roots = root_callers(ctx.repo, f, stop=tuple(table))
            def _okq(qn):
                if qn in table:
                    return True
                cn, _, mn = qn.partition('.')
                try:
                    return mn == '__init__' and ctx.repo.find_class(cn).is_subclass_of('Event')
                except Exception:
                    return False
            ok = all(_okq(r) for r in roots)
            ctx.ob(rule, ok)
            if ok:
                ctx.sample(rule, '%s::%s' % (f.module.relpath, q), 'writer of .%s allowed: %s' % (attr, table.get(q, 'constructor of an Event subclass')))
            else:
                ctx.violation(rule, '%s::%s' % (f.module.relpath, q), 'writer of .%s' % attr,
                              '%s writes an event outcome field .%s outside the trigger methods' % (q, attr),
                              where='%s:%d' % (f.module.relpath, node.lineno))
    ctx.floor(rule, n, 10, 'outcome writer sites')


def callback_list_discipline(ctx, prop):
    """every growth of a .callbacks list is append (or a list display at construction); removals only in the table"""
    rule = prop + '.W.callbacks'
    removers = {'Interruption._interrupt': 'detach the victim', 'Condition._remove_check_callbacks': 'detach own checks'}
    n = 0
    for f in ctx.repo.all_functions():
        for node in walk_local(f.node):
            if isinstance(node, ast.Call) and isinstance(node.func, ast.Attribute) and isinstance(node.func.value, ast.Attribute) \
                    and node.func.value.attr == 'callbacks':
                m = node.func.attr
                n += 1
                ctx.touch(f)
                construct = '%s::%s' % (f.module.relpath, f.qualname)
                where = '%s:%d' % (f.module.relpath, node.lineno)
                if m == 'append':
                    ctx.ob(rule, True)
                    ctx.sample(rule, construct, 'callbacks grown by append (registration order kept)')
                elif m == 'remove':
                    ok = f.qualname in removers
                    ctx.ob(rule, ok)
                    if not ok:
                        ctx.violation(rule, construct, 'callbacks.remove', '%s removes a waiter from a callbacks list' % f.qualname, where=where)
                else:
                    ctx.ob(rule, False)
                    ctx.violation(rule, construct, 'callbacks.%s' % m, '%s changes a callbacks list with .%s(): registration order / exactly-once delivery at risk' % (f.qualname, m), where=where)
    for f, node, kind in attr_writers(ctx.repo, 'callbacks'):
        if kind.startswith('call'):
            continue
        n += 1
        ctx.touch(f)
        def _is_ctor_or_step(q):
            if q == 'Environment.step':
                return True
            cn, _, mn = q.partition('.')
            try:
                return mn == '__init__' and ctx.repo.find_class(cn).is_subclass_of('Event')
            except Exception:
                return False
        # a private initialiser shared by constructors acts for the constructors that call it
        ok = all(_is_ctor_or_step(q) for q in root_callers(ctx.repo, f, stop=('Environment.step',)))
        ctx.ob(rule, ok)
        if not ok:
            ctx.violation(rule, '%s::%s' % (f.module.relpath, f.qualname), 'store to .callbacks (%s)' % kind,
                          '%s rebinds a callbacks list' % f.qualname, where='%s:%d' % (f.module.relpath, node.lineno))
    ctx.floor(rule, n, 9, 'callbacks sites')


def raising_callbacks_private(ctx, prop):
    """step() calls the callbacks of an event one after the other; a callback that raises (the kernel's stop
    callback) cuts that loop short, so every waiter registered behind it is never invoked.  Such a callback may
    therefore sit only on an event nobody else can wait for: one created in the same function (the private
    run-until sentinel).  Path based: on every path, the receiver of `<x>.callbacks.append(StopSimulation.callback)`
    is the symbol of an Event(...) construction of that path."""
    rule = prop + '.W.stop-callback'
    from ..paths import Options
    n = 0
    for f in ctx.repo.all_functions():
        if not f.module.name.startswith('onl.sim'):
            continue
        sites = [node for node in walk_local(f.node)
                 if isinstance(node, ast.Call) and isinstance(node.func, ast.Attribute) and node.func.attr == 'append'
                 and isinstance(node.func.value, ast.Attribute) and node.func.value.attr == 'callbacks'
                 and node.args and ast.unparse(node.args[0]).endswith('StopSimulation.callback')]
        if not sites:
            continue
        cls = f.cls
        bad = {}
        seen = 0
        for p in ctx.paths(cls, f, Options()):
            for e in p.effects:
                if e.kind == 'call' and e.target and e.target.endswith('.callbacks.append') and e.args \
                        and e.args[0].endswith('StopSimulation.callback'):
                    seen += 1
                    recv = e.target[:-len('.callbacks.append')]
                    if not recv.startswith('@Event('):
                        bad[e.lineno] = recv
        n += len(sites)
        construct = '%s::%s' % (f.module.relpath, f.qualname)
        ctx.ob(rule, not bad, max(1, len(sites)))
        if bad:
            for ln, recv in sorted(bad.items()):
                ctx.violation(rule, construct, 'stop callback on %s' % recv,
                              '%s appends the raising stop callback to the callbacks of %s, an event others may wait for: waiters '
                              'registered behind it are never invoked when it is dispatched' % (f.qualname, recv),
                              where='%s:%d' % (f.module.relpath, ln))
        else:
            ctx.sample(rule, construct, 'the stop callback is appended only to an event created on the same path (%d path sites)' % seen)
    ctx.floor(rule, n, 1, 'appends of the stop callback')


def exception_cloning(ctx, prop):
    """type(v)(*v.args) must be well defined for the kernel's own exception classes:
    __init__(self, x) must pass x on to super().__init__ so that args == (x,)"""
    rule = prop + '.S.clone'
    mod = ctx.repo.modules.get('onl.sim.exceptions')
    if mod is None:
        raise AnalysisError('anchor vanished: onl.sim.exceptions')
    n = 0
    for c in mod.classes.values():
        init = c.own('__init__')
        n += 1
        if init is None:
            ctx.ob(rule, True)
            continue
        params = [p for p in init.params if p != 'self']
        passed = None
        for node in walk_local(init.node):
            if isinstance(node, ast.Call) and isinstance(node.func, ast.Attribute) and node.func.attr == '__init__':
                passed = [ast.unparse(a) for a in node.args]
        ok = passed == params
        ctx.ob(rule, ok)
        if not ok:
            ctx.violation(rule, 'onl/sim/exceptions.py::%s.__init__' % c.name, 'args forwarded to super().__init__',
                          '%s.__init__ does not forward exactly its parameters to Exception.__init__: cls(*exc.args) would not reproduce it' % c.name,
                          where=init.where)
        else:
            ctx.sample(rule, 'onl/sim/exceptions.py::%s' % c.name, 'cls(*args) reproduces the exception: __init__%r forwards %r' % (params, passed))
    ctx.floor(rule, n, 3, 'exception classes')


def step_failures_escape(ctx, prop):
    """An unhandled failure leaves step() as an exception of the failure's own class.  A handler around a
    step() call may therefore name only the kernel's stop signal; any other class it names (EmptySchedule,
    Exception, ...) is also a class a failed event may carry, and catching it makes run() return or go on
    silently.  A handler that ends in a bare `raise` passes the failure on and is accepted."""
    rule = prop + '.W.step-handlers'
    ALLOWED = {'StopSimulation'}
    n = 0
    for f in ctx.repo.all_functions():
        if not f.module.name.startswith('onl.sim'):
            continue
        for node in walk_local(f.node):
            if not isinstance(node, ast.Try):
                continue
            calls = [c for st in node.body for c in ast.walk(st)
                     if isinstance(c, ast.Call) and isinstance(c.func, ast.Attribute) and c.func.attr == 'step']
            if not calls:
                continue
            n += 1
            for h in node.handlers:
                if h.body and isinstance(h.body[-1], ast.Raise) and h.body[-1].exc is None:
                    ctx.ob(rule, True)
                    continue
                if h.type is None:
                    names = ['<bare>']
                elif isinstance(h.type, ast.Tuple):
                    names = [ast.unparse(e) for e in h.type.elts]
                else:
                    names = [ast.unparse(h.type)]
                bad = [x for x in names if x.split('.')[-1] not in ALLOWED]
                ctx.ob(rule, not bad)
                if bad:
                    ctx.violation(rule, '%s::%s' % (f.module.relpath, f.qualname), 'handler for %s around step()' % ','.join(bad),
                                  'a handler for %s encloses a step() call: the copy step() raises for an unhandled failed event of '
                                  'that class is swallowed here, so the failure is lost' % ', '.join(bad),
                                  where='%s:%d' % (f.module.relpath, h.lineno))
                else:
                    ctx.sample(rule, '%s::%s' % (f.module.relpath, f.qualname), 'handler around step() names only %s' % names)
    steps = sum(1 for f in ctx.repo.all_functions() if f.module.name.startswith('onl.sim') for c in walk_local(f.node)
                if isinstance(c, ast.Call) and isinstance(c.func, ast.Attribute) and c.func.attr == 'step')
    ctx.ob(rule, True, steps)
    ctx.floor(rule, steps, 1, 'step() call sites in the kernel')


def interruption_sites(ctx, prop):
    rule = prop + '.W.interruption'
    n = 0
    for f in ctx.repo.all_functions():
        for node in walk_local(f.node):
            if isinstance(node, ast.Call) and isinstance(node.func, ast.Name) and node.func.id == 'Interruption':
                n += 1
                ok = root_callers(ctx.repo, f, stop=('Process.interrupt',)) == {'Process.interrupt'}
                ctx.ob(rule, ok)
                if not ok:
                    ctx.violation(rule, '%s::%s' % (f.module.relpath, f.qualname), 'Interruption(...) constructed',
                                  'Interruption constructed outside Process.interrupt', where='%s:%d' % (f.module.relpath, node.lineno))
    ctx.floor(rule, n, 1, 'Interruption construction sites')


def rt_overrides(ctx, prop):
    rule = prop + '.W.rt'
    c = ctx.repo.find_class('RealtimeEnvironment')
    allowed = {'__init__', 'step', 'sync', 'factor', 'strict'}
    for m in c.methods:
        inherited = any(m in b.methods for b in c.mro()[1:])
        ok = m in allowed or (m.startswith('_') and not m.startswith('__') and not inherited)
        ctx.ob(rule, ok)
        if not ok:
            ctx.violation(rule, 'onl/sim/rt.py::RealtimeEnvironment.%s' % m, 'override %s' % m,
                          'RealtimeEnvironment defines %s: only step/sync and the two properties may differ from Environment' % m,
                          where=c.methods[m].where)
    for attr in ('_now', '_queue', '_eid', '_active_proc'):
        for f, node, kind in attr_writers(ctx.repo, attr):
            if f.cls is c:
                ctx.ob(rule, False)
                ctx.violation(rule, 'onl/sim/rt.py::%s' % f.qualname, 'writes kernel state .%s' % attr,
                              '%s writes the kernel\'s .%s: the real-time environment must not change what is executed' % (f.qualname, attr),
                              where='%s:%d' % (f.module.relpath, node.lineno))
    ctx.ob(rule, True)
    ok = [b.name for b in c.bases] == ['Environment']
    ctx.ob(rule, ok)
    if not ok:
        ctx.violation(rule, 'onl/sim/rt.py::RealtimeEnvironment', 'bases', 'RealtimeEnvironment must derive from Environment only')
    rt = ctx.repo.modules['onl.sim.rt']
    for nm in ('monotonic', 'sleep'):
        imp = rt.imports.get(nm)
        ok = imp == ('time', nm)
        ctx.ob(rule, ok)
        if not ok:
            ctx.violation(rule, 'onl/sim/rt.py::imports', nm, '%s must be time.%s (is %r)' % (nm, nm, imp))


def queue_writers(ctx, prop):
    for q in ('put_queue', 'get_queue'):
        kind = q.split('_')[0]
        check_writers(ctx, '%s.W.%s' % (prop, q), q, {
            'BaseResource.__init__': 'fresh queue', '%s.__init__' % kind.capitalize(): 'enqueue on creation',
            '%s.cancel' % kind.capitalize(): 'remove on cancel (followed by a rescan)',
            'BaseResource._trigger_%s' % kind: 'pop of a granted request'}, 4,
            'request queues change only on creation, cancel and grant')


def items_writers(ctx, prop):
    rule = prop + '.W.items'
    allowed = {'Store.__init__': 'empty', 'Store._do_put': 'tail insert', 'Store._do_get': 'head removal',
               'PriorityStore._do_put': 'heap insert', 'PriorityStore._do_get': 'heap pop',
               'FilterStore._do_get': 'first match removal'}
    check_writers(ctx, rule, 'items', allowed, 6, 'store contents change only in the _do_* methods')


def heap_imports(ctx, prop):
    rule = prop + '.W.heapq'
    mod = ctx.repo.modules['onl.sim.resources.store']
    for nm in ('heappush', 'heappop'):
        imp = mod.imports.get(nm)
        ok = imp == ('heapq', nm)
        ctx.ob(rule, ok)
        if not ok:
            ctx.violation(rule, 'onl/sim/resources/store.py::imports', nm, '%s must be heapq.%s (is %r)' % (nm, nm, imp))


def active_process_discipline(ctx, prop):
    """env.active_process is what Interruption and Timer.restart use to recognise a self-call: it is written only by
    Process._resume (and initialised by the environment), and every non-raising way out of _resume leaves it None"""
    from ..paths import Options, loops_of
    rule = prop + '.C.active_proc'
    check_writers(ctx, prop + '.W.active_proc', '_active_proc', {
        'Environment.__init__': 'no process is active initially', 'Process._resume': 'active while the generator runs'}, 3,
        'the active-process mark is maintained by Process._resume only')
    c = ctx.repo.find_class('Process')
    f = c.own('_resume')
    if f is None:
        raise AnalysisError('anchor vanished: Process._resume')
    paths = ctx.paths(c, f, Options(), primary=False)    # a slice of _resume: not a target of the self-validation
    n = 0
    construct = '%s::Process._resume' % f.module.relpath
    for p in paths:
        if p.exit == 'raise':
            continue
        n += 1
        ws = [e.value for e in p.effects if e.kind == 'write' and e.target == 'self.env._active_proc']
        ok = len(ws) >= 2 and ws[0] == 'self' and ws[-1] == 'None'
        ctx.ob(rule, ok)
        if not ok:
            ctx.violation(rule, construct, 'active_proc writes %s' % ws,
                          'Process._resume must mark itself active on entry and clear the mark on every normal exit (writes: %s)' % ws, where=f.where)
    for reg in loops_of(paths):
        for p in reg.paths:
            if p.exit == 'return':
                n += 1
                ws = [e.value for e in p.effects if e.kind == 'write' and e.target == 'self.env._active_proc']
                ok = bool(ws) and ws[-1] == 'None'
                ctx.ob(rule, ok)
                if not ok:
                    ctx.violation(rule, construct, 'return from the resume loop without clearing active_proc',
                                  'Process._resume returns from inside its loop on the path [%s] and leaves env.active_process pointing at this process' % p.cond_str()[:160],
                                  where='%s:%d' % (f.module.relpath, p.exit_line))
            # the mark must not be cleared while the generator may still run in this call
            for e in p.effects:
                if e.kind == 'write' and e.target == 'self.env._active_proc' and p.exit in ('fall', 'continue'):
                    n += 1
                    ctx.ob(rule, False)
                    ctx.violation(rule, construct, 'active_proc cleared inside the resume loop',
                                  'Process._resume clears env.active_process on a path that goes on to resume the generator again [%s]' % p.cond_str()[:160],
                                  where='%s:%d' % (f.module.relpath, e.lineno))
    ctx.floor(rule, n, 1, 'exits of Process._resume')


def agenda_readers(ctx, prop):
    """what is on the agenda (peek(), the queue itself) may steer only the kernel's own stepping: model code that looks at
    it sees the private stop sentinel of run(until=number) and so behaves differently depending on how the run is driven"""
    rule = prop + '.W.agenda-readers'
    allowed = {'Environment.__init__', 'Environment.peek', 'Environment.step', 'Environment.run', 'Environment.schedule',
               'RealtimeEnvironment.step'}
    n = 0
    for f in ctx.repo.all_functions():
        if f.cls is not None and f.cls.is_subclass_of('BaseResource'):
            continue        # Resource._queue is the request queue (a different object)
        if f.cls is not None and f.cls.is_subclass_of('Environment'):
            # the environment's own methods own the agenda (a new accessor such as `pending` included); what matters is
            # model code looking at it
            n += 1
            ctx.ob(rule, True)
            continue
        for node in walk_local(f.node):
            is_peek = isinstance(node, ast.Call) and isinstance(node.func, ast.Attribute) and node.func.attr == 'peek'
            is_q = isinstance(node, ast.Attribute) and node.attr == '_queue'
            if not (is_peek or is_q):
                continue
            n += 1
            ok = root_callers(ctx.repo, f, stop=tuple(allowed)) <= allowed
            ctx.ob(rule, ok)
            if not ok:
                ctx.touch(f)
                ctx.violation(rule, '%s::%s' % (f.module.relpath, f.qualname), 'reads the agenda',
                              '%s looks at the agenda (%s): what it does then depends on whether run() has its stop sentinel queued, '
                              'i.e. on how the run is split' % (f.qualname, 'peek()' if is_peek else '_queue'),
                              where='%s:%d' % (f.module.relpath, node.lineno))
            else:
                ctx.sample(rule, '%s::%s' % (f.module.relpath, f.qualname), 'agenda read inside the kernel stepping code')
    ctx.floor(rule, n, 7, 'agenda reads')


def condition_detachers(ctx, prop):
    """a condition's _check subscriptions are removed only by the condition itself, once it is decided"""
    rule = prop + '.W.check-detach'
    allowed = {'Condition._check', 'Condition._build_value', 'Condition._remove_check_callbacks'}
    n = 0
    for f in ctx.repo.all_functions():
        for node in walk_local(f.node):
            hit = None
            if isinstance(node, ast.Call) and isinstance(node.func, ast.Attribute):
                if node.func.attr == '_remove_check_callbacks':
                    hit = 'calls _remove_check_callbacks()'
                elif node.func.attr == 'remove' and node.args and isinstance(node.args[0], ast.Attribute) and node.args[0].attr == '_check':
                    hit = 'removes a _check subscription'
            if hit is None:
                continue
            n += 1
            ok = root_callers(ctx.repo, f, stop=tuple(allowed)) <= allowed
            ctx.ob(rule, ok)
            if not ok:
                ctx.touch(f)
                ctx.violation(rule, '%s::%s' % (f.module.relpath, f.qualname), hit,
                              '%s %s: a condition that is still undecided stops watching its operands and can never fire' % (f.qualname, hit),
                              where='%s:%d' % (f.module.relpath, node.lineno))
            else:
                ctx.sample(rule, '%s::%s' % (f.module.relpath, f.qualname), 'detaching done by the condition itself')
    ctx.floor(rule, n, 3, 'detach sites')
