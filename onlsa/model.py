"""Repository model: modules, imports, classes with C3 MRO, methods, the
BoundClass descriptor idiom, property getters, field types from __init__.

Built from source text only (ast); nothing under the repository is imported.
"""
from __future__ import annotations

import ast
import hashlib
import os
from typing import Dict, List, Optional, Tuple


class AnalysisError(Exception):
    """anchor vanished / unparsable file / internal problem -> exit 2"""


class FuncInfo:
    def __init__(self, module: 'Module', cls: Optional['ClassInfo'], node: ast.FunctionDef):
        self.module = module
        self.cls = cls
        self.node = node
        self.name = node.name

    def normalized(self) -> 'FuncInfo':
        """the same function with the statement-level normal forms of normalize.py applied (what the path executor
        runs; the AST rules keep looking at the source as written)"""
        n = getattr(self, '_norm', None)
        if n is None:
            from .normalize import normalized as _nz, inline_expression_helpers as _ieh
            n = FuncInfo(self.module, self.cls, _nz(_ieh(self.node, self._helper_resolver())))
            n._norm = n
            n._orig = self
            self._norm = n
        return n

    def specialised(self, names) -> 'FuncInfo':
        """the same function with the given (trailing, defaulted) parameters removed from the signature and bound to
        their defaults at the top of the body: what the function does for every caller that does not pass them"""
        import copy as _copy
        key = tuple(names)
        cache = self.__dict__.setdefault('_spec_cache', {})
        if key in cache:
            return cache[key]
        node = _copy.deepcopy(self.node)
        a = node.args
        pos = a.posonlyargs + a.args
        dflt = [None] * (len(pos) - len(a.defaults)) + list(a.defaults)
        binds = []
        keep_args, keep_defaults = [], []
        for p_, d in zip(a.args, dflt[len(a.posonlyargs):]):
            if p_.arg in names and d is not None:
                binds.append((p_.arg, d))
            else:
                keep_args.append(p_)
                if d is not None:
                    keep_defaults.append(d)
        a.args = keep_args
        a.defaults = [d for d in dflt[:len(a.posonlyargs)] if d is not None] + keep_defaults
        kw, kwd = [], []
        for p_, d in zip(a.kwonlyargs, a.kw_defaults):
            if p_.arg in names and d is not None:
                binds.append((p_.arg, d))
            else:
                kw.append(p_)
                kwd.append(d)
        a.kwonlyargs, a.kw_defaults = kw, kwd
        body = list(node.body)
        at = 1 if body and isinstance(body[0], ast.Expr) and isinstance(body[0].value, ast.Constant) and isinstance(body[0].value.value, str) else 0
        for nm, d in reversed(binds):
            body.insert(at, ast.copy_location(ast.Assign(targets=[ast.Name(id=nm, ctx=ast.Store())], value=d), node))
        node.body = body
        ast.fix_missing_locations(node)
        f2 = FuncInfo(self.module, self.cls, node)
        cache[key] = f2
        return f2

    def _helper_resolver(self):
        """call node -> (params, expression, defaults, skip_self) for a private helper of the repository that only returns
        an expression of its arguments: a @staticmethod / a method no subclass overrides called on self or on the class,
        or a module-level function"""
        from .normalize import expression_of
        repo = getattr(self.module, 'repo', None)

        def overridden(ci, name):
            return any(name in c.methods for c in repo.all_classes() if c is not ci and ci in c.mro())

        def res(call):
            f = call.func
            try:
                if isinstance(f, ast.Name) and f.id.startswith('_') and repo is not None:
                    r = repo.resolve_name(self.module, f.id)
                    if r and r[0] == 'func' and r[1].node is not self.node:
                        e = expression_of(r[1].node)
                        return (e[0], e[1], e[2], False) if e else None
                if isinstance(f, ast.Attribute) and not f.attr.startswith('__') and isinstance(f.value, ast.Name) and (
                        f.attr.startswith('_') or (f.value.id == 'self' and not call.args and not call.keywords)):
                    # (a public method only as an argument-less view of self: `self.items()`)
                    ci = None
                    if f.value.id == 'self' and self.cls is not None:
                        ci = self.cls
                    elif repo is not None:
                        r = repo.resolve_name(self.module, f.value.id)
                        if r and r[0] == 'class':
                            ci = r[1]
                    if ci is None:
                        return None
                    t = ci.lookup(f.attr)
                    if t is None or t.node is self.node:
                        return None
                    decs = t.decorators()
                    definer = t.cls
                    if overridden(definer, f.attr) or (ci is not definer and f.attr in ci.methods and ci.methods[f.attr] is not t):
                        return None
                    e = expression_of(t.node)
                    if e is None:
                        return None
                    if 'staticmethod' in decs:
                        return (e[0], e[1], e[2], False)
                    if 'classmethod' in decs or 'property' in decs:
                        return None
                    if f.value.id != 'self':
                        return None
                    # an instance method: its `self` is the caller's `self`
                    return (e[0], e[1], e[2], True)
            except Exception:
                return None
            return None
        return res

    @property
    def qualname(self) -> str:
        return (self.cls.name + '.' if self.cls else '') + self.name

    @property
    def where(self) -> str:
        return '%s:%d %s' % (self.module.relpath, self.node.lineno, self.qualname)

    @property
    def params(self) -> List[str]:
        a = self.node.args
        return [x.arg for x in a.posonlyargs + a.args]

    def is_generator(self) -> bool:
        for n in walk_local(self.node):
            if isinstance(n, (ast.Yield, ast.YieldFrom)):
                return True
        return False

    def decorators(self) -> List[str]:
        out = []
        for d in self.node.decorator_list:
            try:
                out.append(ast.unparse(d))
            except Exception:
                pass
        return out


def walk_local(fn: ast.AST):
    """ast.walk that does not descend into nested function / class definitions
    (but does visit lambdas' bodies? no: lambdas are skipped too)."""
    stack = list(ast.iter_child_nodes(fn))
    while stack:
        n = stack.pop()
        yield n
        if isinstance(n, (ast.FunctionDef, ast.AsyncFunctionDef, ast.ClassDef, ast.Lambda)):
            continue
        stack.extend(ast.iter_child_nodes(n))


class ClassInfo:
    def __init__(self, module: 'Module', node: ast.ClassDef):
        self.module = module
        self.node = node
        self.name = node.name
        self.methods: Dict[str, FuncInfo] = {}
        self.attrs: Dict[str, ast.expr] = {}        # class-level assignments (run-time arm)
        self.typed_stubs: Dict[str, FuncInfo] = {}  # methods under `if TYPE_CHECKING:`
        self.bases: List['ClassInfo'] = []
        self.base_names: List[str] = []
        self._mro: Optional[List['ClassInfo']] = None
        self._collect(node.body, typed=False)

    def _collect(self, body, typed: bool):
        for s in body:
            if isinstance(s, ast.FunctionDef):
                fi = FuncInfo(self.module, self, s)
                if typed:
                    self.typed_stubs[s.name] = fi
                else:
                    # property setters share the name: keep getter under name,
                    # setter under name + '.setter'
                    decs = [ast.unparse(d) for d in s.decorator_list]
                    if any(d.endswith('.setter') for d in decs):
                        self.methods[s.name + '.setter'] = fi
                    else:
                        self.methods[s.name] = fi
            elif isinstance(s, ast.Assign) and not typed:
                for t in s.targets:
                    if isinstance(t, ast.Name):
                        self.attrs[t.id] = s.value
            elif isinstance(s, ast.AnnAssign) and not typed:
                if isinstance(s.target, ast.Name) and s.value is not None:
                    self.attrs[s.target.id] = s.value
            elif isinstance(s, ast.If):
                test = ast.unparse(s.test)
                if test == 'TYPE_CHECKING':
                    self._collect(s.body, typed=True)
                    self._collect(s.orelse, typed=typed)
                else:
                    self._collect(s.body, typed)
                    self._collect(s.orelse, typed)

    @property
    def qualname(self) -> str:
        return self.module.name + ':' + self.name

    def mro(self) -> List['ClassInfo']:
        if self._mro is None:
            self._mro = _c3(self)
        return self._mro

    def lookup(self, name: str) -> Optional[FuncInfo]:
        for c in self.mro():
            if name in c.methods:
                return c.methods[name]
        return None

    def own(self, name: str) -> Optional[FuncInfo]:
        """the method as this class defines it - also when the definition has been moved into a base class that the
        confirmed tree does not have (an extracted private mixin / base): for every rule that asks what *this* class
        does, that is still this class's own method, analysed in this class's context"""
        f = self.methods.get(name)
        if f is not None:
            return f
        from . import vocab
        try:
            known = set(vocab.load()['classes'])
        except (OSError, ValueError):
            return None
        for c in self.mro()[1:]:
            if name in c.methods:
                return c.methods[name] if c.name not in known else None
        return None

    def lookup_after(self, after: 'ClassInfo', name: str) -> Optional[FuncInfo]:
        """super() lookup: first definition after `after` in self's MRO"""
        m = self.mro()
        if after in m:
            for c in m[m.index(after) + 1:]:
                if name in c.methods:
                    return c.methods[name]
        return None

    def lookup_attr(self, name: str) -> Optional[Tuple['ClassInfo', ast.expr]]:
        for c in self.mro():
            if name in c.attrs:
                return c, c.attrs[name]
        return None

    def is_subclass_of(self, other_name: str) -> bool:
        return any(c.name == other_name for c in self.mro())

    def bound_class(self, name: str) -> Optional[str]:
        """`name = BoundClass(X)` (run-time arm) -> 'X'"""
        r = self.lookup_attr(name)
        if r is None:
            return None
        v = r[1]
        if isinstance(v, ast.Call) and isinstance(v.func, ast.Name) and v.func.id == 'BoundClass' and v.args:
            a = v.args[0]
            if isinstance(a, ast.Name):
                return a.id
        return None

    def property_getter(self, name: str) -> Optional[FuncInfo]:
        f = self.lookup(name)
        if f is not None and any(d == 'property' for d in f.decorators()):
            return f
        return None

    def init_fields(self) -> Dict[str, ast.expr]:
        """self.f = <expr> assignments in __init__ along the MRO (subclass wins)"""
        out: Dict[str, ast.expr] = {}
        for c in reversed(self.mro()):
            f = c.methods.get('__init__')
            if f is None:
                continue
            for n in walk_local(f.node):
                if isinstance(n, ast.Assign):
                    for t in n.targets:
                        if isinstance(t, ast.Attribute) and isinstance(t.value, ast.Name) and t.value.id == 'self':
                            out[t.attr] = n.value
                elif isinstance(n, ast.AnnAssign) and n.value is not None:
                    t = n.target
                    if isinstance(t, ast.Attribute) and isinstance(t.value, ast.Name) and t.value.id == 'self':
                        out[t.attr] = n.value
        return out


def _c3(cls: ClassInfo) -> List[ClassInfo]:
    seqs = [list(b.mro()) for b in cls.bases] + [list(cls.bases)]
    res = [cls]
    seqs = [s for s in seqs if s]
    while seqs:
        for s in seqs:
            cand = s[0]
            if not any(cand in t[1:] for t in seqs):
                break
        else:
            raise AnalysisError('inconsistent MRO for ' + cls.name)
        res.append(cand)
        for s in seqs:
            if s and s[0] is cand:
                del s[0]
        seqs = [s for s in seqs if s]
    return res


class Module:
    def __init__(self, repo: 'Repo', name: str, path: str, relpath: str, source: Optional[str] = None, tree=None):
        self.repo = repo
        self.name = name
        self.path = path
        self.relpath = relpath
        src = source if source is not None else open(path, encoding='utf-8').read()
        self.source = src
        self.digest = hashlib.sha256(src.encode()).hexdigest()[:16]
        if tree is not None:
            self.tree = tree
        else:
            try:
                self.tree = ast.parse(src, filename=path)
            except SyntaxError as e:
                raise AnalysisError('cannot parse %s: %s' % (relpath, e))
        self.classes: Dict[str, ClassInfo] = {}
        self.functions: Dict[str, FuncInfo] = {}
        self.imports: Dict[str, Tuple[str, Optional[str]]] = {}   # local -> (module, attr|None)
        self.star_imports: List[str] = []
        self.globals: Dict[str, ast.expr] = {}
        self._collect(self.tree.body)

    def _collect(self, body):
        for s in body:
            if isinstance(s, ast.ClassDef):
                self.classes[s.name] = ClassInfo(self, s)
            elif isinstance(s, ast.FunctionDef):
                self.functions[s.name] = FuncInfo(self, None, s)
            elif isinstance(s, ast.Import):
                for a in s.names:
                    self.imports[a.asname or a.name.split('.')[0]] = (a.name, None)
            elif isinstance(s, ast.ImportFrom):
                base = self._resolve_rel(s.module, s.level)
                for a in s.names:
                    if a.name == '*':
                        self.star_imports.append(base)
                    else:
                        self.imports[a.asname or a.name] = (base, a.name)
            elif isinstance(s, ast.Assign):
                for t in s.targets:
                    if isinstance(t, ast.Name):
                        self.globals[t.id] = s.value
            elif isinstance(s, ast.AnnAssign):
                if isinstance(s.target, ast.Name) and s.value is not None:
                    self.globals[s.target.id] = s.value
            elif isinstance(s, (ast.If, ast.Try)):
                for blk in ('body', 'orelse', 'finalbody'):
                    self._collect(getattr(s, blk, []) or [])

    def _resolve_rel(self, module: Optional[str], level: int) -> str:
        if level == 0:
            return module or ''
        parts = self.name.split('.')
        is_pkg = os.path.basename(self.path) == '__init__.py'
        base = parts if is_pkg else parts[:-1]
        if level > 1:
            base = base[:len(base) - (level - 1)]
        return '.'.join(base + ([module] if module else []))


class Repo:
    def __init__(self, root: str, package: str = 'onl', overlay: Optional[Dict[str, str]] = None):
        """overlay: {relative path: source text} replaces the file content in memory (used by the
        checker self-validation to analyse variants without writing them anywhere)"""
        self.root = root
        self.package = package
        overlay = overlay or {}
        self.modules: Dict[str, Module] = {}
        pkg_dir = os.path.join(root, package)
        if not os.path.isdir(pkg_dir):
            raise AnalysisError('package directory not found: ' + pkg_dir)
        found = []
        for d, dirs, files in os.walk(pkg_dir):
            dirs[:] = sorted(x for x in dirs if x != '__pycache__')
            if '__init__.py' not in files:
                dirs[:] = []
                continue
            for f in sorted(files):
                if f.endswith('.py'):
                    path = os.path.join(d, f)
                    rel = os.path.relpath(path, root)
                    name = rel[:-3].replace(os.sep, '.')
                    if name.endswith('.__init__'):
                        name = name[:-9]
                    src = overlay.get(rel)
                    if src is None:
                        src = open(path, encoding='utf-8').read()
                    try:
                        tree = ast.parse(src, filename=path)
                    except SyntaxError as e:
                        raise AnalysisError('cannot parse %s: %s' % (rel, e))
                    found.append((name, path, rel, src, tree))
        # private names renamed throughout the package are read under their old names (onlsa/vocab.py)
        from . import vocab
        trees = {rel: tree for (_n, _p, rel, _s, tree) in found}
        self.renamed = vocab.renames(trees)
        if self.renamed:
            vocab.apply(trees, self.renamed)
        # state a backwards-compatible extension added and that no confirmed code can observe (write-only statistics;
        # attributes bound to the default of a new optional parameter) is taken out before any rule looks
        self.fresh_write_only, self.fresh_default_bound = vocab.fresh_state(trees)
        if self.fresh_write_only or self.fresh_default_bound:
            vocab.drop_fresh(trees, self.fresh_write_only, self.fresh_default_bound)
        for (name, path, rel, src, _t) in found:
            self.modules[name] = Module(self, name, path, rel, src, tree=trees[rel])
        self._link()

    # -- resolution -----------------------------------------------------------
    def resolve_name(self, mod: Module, name: str, _seen=None):
        """resolve a module-level name to ('class', ClassInfo) | ('func', FuncInfo) |
        ('global', Module, expr) | ('ext', 'module.attr') | None"""
        _seen = _seen or set()
        key = (mod.name, name)
        if key in _seen:
            return None
        _seen.add(key)
        if name in mod.classes:
            return ('class', mod.classes[name])
        if name in mod.functions:
            return ('func', mod.functions[name])
        if name in mod.imports:
            m, attr = mod.imports[name]
            if attr is None:
                return ('ext', m)
            target = self.modules.get(m)
            if target is not None:
                r = self.resolve_name(target, attr, _seen)
                if r is not None:
                    return r
                sub = self.modules.get(m + '.' + attr)
                if sub is not None:
                    return ('module', sub)
                return None
            return ('ext', m + '.' + attr)
        if name in mod.globals:
            return ('global', mod, mod.globals[name])
        for m in mod.star_imports:
            target = self.modules.get(m)
            if target is not None:
                r = self.resolve_name(target, name, _seen)
                if r is not None:
                    return r
        return None

    def _link(self):
        for mod in self.modules.values():
            for cls in mod.classes.values():
                for b in cls.node.bases:
                    bn = b
                    if isinstance(bn, ast.Subscript):      # Generic[T], ContextManager['Put']
                        bn = bn.value
                    name = ast.unparse(bn)
                    cls.base_names.append(name)
                    r = None
                    if isinstance(bn, ast.Name):
                        r = self.resolve_name(mod, bn.id)
                    elif isinstance(bn, ast.Attribute) and isinstance(bn.value, ast.Name):
                        rr = self.resolve_name(mod, bn.value.id)
                        if rr and rr[0] == 'module':
                            r = self.resolve_name(rr[1], bn.attr)
                    if r and r[0] == 'class':
                        cls.bases.append(r[1])

    # -- lookup helpers ---------------------------------------------------------
    def cls(self, modname: str, clsname: str) -> ClassInfo:
        m = self.modules.get(modname)
        if m is None or clsname not in m.classes:
            raise AnalysisError('anchor vanished: class %s in module %s' % (clsname, modname))
        return m.classes[clsname]

    def find_class(self, clsname: str) -> ClassInfo:
        hits = [m.classes[clsname] for m in self.modules.values() if clsname in m.classes]
        if len(hits) != 1:
            raise AnalysisError('anchor %s: class %s found %d times' % (clsname, clsname, len(hits)))
        return hits[0]

    def method(self, clsname: str, meth: str, modname: Optional[str] = None, own: bool = False) -> FuncInfo:
        c = self.cls(modname, clsname) if modname else self.find_class(clsname)
        f = c.methods.get(meth) if own else c.lookup(meth)
        if f is None:
            raise AnalysisError('anchor vanished: method %s.%s' % (clsname, meth))
        return f

    def known_classes(self):
        from . import vocab
        try:
            return set(vocab.load()['classes'])
        except (OSError, ValueError):
            return None

    def is_extracted_base(self, c: ClassInfo) -> bool:
        """a class the confirmed tree does not have, introduced as a base of classes it does have (an extracted private
        mixin / base class): rules that ask what each element class does judge its subclasses - in their own context, where
        the inherited definitions are found - not the base standing alone"""
        known = self.known_classes()
        if known is None or c.name in known:
            return False
        return any(c in k.mro()[1:] for k in self.all_classes() if k.name in known)

    def known_method_names(self):
        from . import vocab
        try:
            v = vocab.load()
        except (OSError, ValueError):
            return None
        out = set()
        for ms in v['methods'].values():
            out |= set(ms)
        return out

    def unused_new_classes(self):
        """classes the confirmed tree does not have, that are not bases of classes it has, and that nothing else in the
        package refers to (a `CountingSink(PacketSink)` appended to a module): additions beside the code the references
        describe.  The rules leave them out - and say so in the evidence - instead of failing on an unclassified class;
        as soon as existing code instantiates or names such a class it is in scope again."""
        cached = self.__dict__.get('_unused_new')
        if cached is not None:
            return cached
        out = set()
        known = self.known_classes()
        every = [c for m in self.modules.values() for c in m.classes.values()]
        if known is not None:
            cand = [c for c in every if c.name not in known and not any(c in k.mro()[1:] for k in every if k.name in known)]
            names = {c.name for c in cand}
            used = set()
            if names:
                for m in self.modules.values():
                    own_nodes = {}
                    for c in m.classes.values():
                        if c.name in names:
                            for n in ast.walk(c.node):
                                own_nodes[id(n)] = c.name
                    for n in ast.walk(m.tree):
                        nm = n.id if isinstance(n, ast.Name) else n.attr if isinstance(n, ast.Attribute) else None
                        if nm in names and own_nodes.get(id(n)) is None:
                            used.add(nm)
                # a new class that only other unused new classes name is unused as well (one pass is enough here)
            out = {c for c in cand if c.name not in used}
        self.__dict__['_unused_new'] = out
        return out

    def all_classes(self) -> List[ClassInfo]:
        skip = self.unused_new_classes()
        return [c for m in self.modules.values() for c in m.classes.values() if c not in skip]

    def all_functions(self) -> List[FuncInfo]:
        out = []
        skip = self.unused_new_classes()
        for m in self.modules.values():
            out.extend(m.functions.values())
            for c in m.classes.values():
                if c in skip:
                    continue
                out.extend(c.methods.values())
                out.extend(c.typed_stubs.values())
        return out

    def subclasses(self, clsname: str, strict: bool = False) -> List[ClassInfo]:
        return [c for c in self.all_classes()
                if c.is_subclass_of(clsname) and not (strict and c.name == clsname)]

    def digest(self) -> str:
        h = hashlib.sha256()
        for name in sorted(self.modules):
            h.update(name.encode())
            h.update(self.modules[name].digest.encode())
        return h.hexdigest()[:16]
