"""Check context: obligations, findings, known-findings file, evidence, exit
protocol (0 holds / 1 VIOLATION / 2 ANALYSIS-ERROR)."""
from __future__ import annotations

import json
import os
import re
import sys
import time
import traceback
from typing import Callable, Dict, List, Optional

from .model import Repo, AnalysisError, FuncInfo, ClassInfo
from .paths import function_paths, parse_spec_function, Options, Path, loops_of
from .compare import compare_paths, View, describe, Mismatch

VERIF = os.path.dirname(os.path.dirname(os.path.abspath(__file__)))
REPO_ROOT = os.environ.get('ONLSA_REPO', '/repo')
KNOWN_FILE = os.path.join(VERIF, 'KNOWN_FINDINGS.txt')
EVID_DIR = os.environ.get('ONLSA_EVIDENCE_DIR') or os.path.join(VERIF, 'evidence')


class Finding:
    def __init__(self, prop, rule, construct, key, message, where='', detail=''):
        self.prop = prop
        self.rule = rule
        self.construct = construct      # module-relative construct: file::Class.method
        self.key = key                  # normalised, line-free
        self.message = message
        self.where = where              # file:line for humans
        self.detail = detail
        self.known = False

    def ident(self) -> str:
        return 'property=%s rule=%s construct=%s key=%s' % (self.prop, self.rule, self.construct, norm_key(self.key))


def norm_key(s: str) -> str:
    return re.sub(r'\s+', ' ', s).strip()


class Ctx:
    def __init__(self, prop: str, tier: str = 'quick', repo_root: Optional[str] = None, overlay=None):
        self.prop = prop
        self.tier = tier
        self.t0 = time.time()
        self.repo = Repo(repo_root or REPO_ROOT, overlay=overlay)
        self.findings: List[Finding] = []
        self.floor_errors: List[str] = []
        self.obligations = 0
        self.discharged = 0
        self.rule_instances: Dict[str, int] = {}
        self.samples: List[dict] = []
        self.stats: Dict[str, int] = {'functions_analysed': 0, 'paths_enumerated': 0, 'pairs_compared': 0,
                                      'feasible_pairs': 0, 'sites_scanned': 0}
        self.notes: List[str] = []
        r_ = self.repo
        if getattr(r_, 'renamed', None):
            self.notes.append('private names renamed throughout the package, read under their confirmed names: %s' % r_.renamed)
        if getattr(r_, 'fresh_write_only', None):
            self.notes.append('new write-only state left out (no confirmed code reads it): %s' % sorted(
                '%s.%s' % (k[0] or '*', k[1]) for k in r_.fresh_write_only))
        if getattr(r_, 'fresh_default_bound', None):
            self.notes.append('new attributes bound to the default of a new optional constructor parameter, read as that default: %s' % sorted(
                '%s.%s' % (k[0] or '*', k[1]) for k in r_.fresh_default_bound))
        try:
            un = sorted(c.name for c in r_.unused_new_classes())
        except Exception:
            un = []
        if un:
            self.notes.append('new classes that nothing in the package refers to are outside the scope of this verdict: %s' % un)
            print('NOTE property=%s new classes outside the scope of the references (not decided): %s' % (prop, ', '.join(un)))
        self.assumptions: List[str] = []
        self.consulted: set = set()
        self._fn_seen = set()
        self.touched: List[FuncInfo] = []
        self.primary: List[FuncInfo] = []
        self._primary_seen = set()
        self.selftest: Optional[dict] = None

    # -- bookkeeping -------------------------------------------------------------
    def ob(self, rule: str, ok: bool, n: int = 1):
        self.obligations += n
        self.rule_instances[rule] = self.rule_instances.get(rule, 0) + n
        if ok:
            self.discharged += n

    def rule_ids(self):
        return list(self.rule_instances)

    def sample(self, rule: str, construct: str, what: str, verdict: str = 'HOLDS', **extra):
        if len([s for s in self.samples if s['rule'] == rule]) < 3:
            d = {'rule': rule, 'construct': construct, 'obligation': what, 'verdict': verdict}
            d.update(extra)
            self.samples.append(d)

    def violation(self, rule: str, construct: str, key: str, message: str, where: str = '', detail: str = ''):
        self.findings.append(Finding(self.prop, rule, construct, key, message, where, detail))

    def floor(self, rule: str, n: int, floor: int, what: str):
        """fewer instances than were confirmed by hand: the rule would pass vacuously.  Deferred to the end of the
        check: when other rules report a violation of the same tree that verdict stands (exit 1) and the shortfall is
        printed with it; with no violation the run is analysis-broken (exit 2), never a silent pass"""
        # `floor` is the number of instances confirmed by hand on the reference tree.  The alarm threshold is two
        # thirds of it (rounded up, at least 1): merging two sites into a helper, or moving a mutation behind a
        # parameter of a helper, legitimately lowers a count by one or two; a rule that lost a third of its instances
        # is looking at a different program
        floor = max(1, (2 * floor + 2) // 3)
        if n < floor:
            self.floor_errors.append('%s: only %d %s found, fewer than two thirds of those confirmed by hand on the reference tree '
                                     '(threshold %d) - the rule would pass vacuously' % (rule, n, what, floor))

    def raise_deferred(self, have_violations: bool):
        if self.floor_errors and not have_violations:
            raise AnalysisError('; '.join(self.floor_errors))

    def touch(self, f: FuncInfo, primary: bool = False):
        self.consulted.add(f.module.relpath)
        if primary and f.node not in self._primary_seen:
            self._primary_seen.add(f.node)
            self.primary.append(f)
        if f.node not in self._fn_seen:
            self._fn_seen.add(f.node)
            self.touched.append(f)
            self.stats['functions_analysed'] += 1

    # -- the workhorse: code table vs reference table ------------------------------
    def paths(self, cls: Optional[ClassInfo], f: FuncInfo, opts: Optional[Options] = None, primary: bool = True) -> List[Path]:
        self.touch(f, primary=primary)
        ps, ex = function_paths(self.repo, cls, f, opts)
        self.stats['paths_enumerated'] += ex.npaths
        return ps

    def table(self, rule: str, clsname: str, meth: str, spec_src: str, view: Optional[View] = None,
              opts: Optional[Options] = None, ctx_cls: Optional[str] = None, region: Optional[int] = None,
              own: bool = False, what: str = '', modname: Optional[str] = None):
        """the method's path table must be equivalent to the reference function's.
        region=None: whole function; region=k: k-th loop region of both (per-iteration tables)."""
        repo = self.repo
        cls = repo.cls(modname, clsname) if modname else repo.find_class(clsname)
        ctx = repo.find_class(ctx_cls) if ctx_cls else cls
        f = cls.methods.get(meth) if own else ctx.lookup(meth)
        inherited = False
        if f is None and own:
            # the class no longer defines the method itself but inherits one (e.g. two sibling definitions merged into
            # the base with a hook): what instances of this class do is still decided, in the context of this class
            f = cls.lookup(meth)
            inherited = f is not None
            if f is not None and ctx_cls is None:
                ctx = cls
        if f is None:
            base_meth = meth.split('.')[0]
            public = not base_meth.startswith('_') or (base_meth.startswith('__') and base_meth.endswith('__'))
            if not public:
                # a private anchor that is gone may have been renamed or inlined: nothing can be decided
                raise AnalysisError('%s: anchor vanished: %s.%s' % (rule, clsname, meth))
            # a public method the reference describes no longer exists on this class.  If the class is a base whose
            # subclasses all still answer to it (the method was pushed down), each of them is compared in its own
            # context; otherwise instances no longer have the behaviour at all
            subs = [c for c in repo.subclasses(clsname, strict=True)] if hasattr(repo, 'subclasses') else []
            if subs and all(c.lookup(meth) is not None for c in subs) and ctx_cls is None:
                out = []
                for c in subs:
                    out.extend(self.table(rule, c.name, meth, spec_src, view, opts, None, region, False, what, None) or [])
                return out
            self.ob(rule, False)
            lacking = [c.name for c in ([cls] + subs) if c.lookup(meth) is None]
            self.violation(rule, '%s::%s' % (cls.module.relpath, clsname), 'no method %s' % meth,
                           '%s: %s no longer define%s %s (instances raise AttributeError where the property\'s mechanism calls it)'
                           % (what or 'behaviour the property requires', ', '.join(lacking), 's' if len(lacking) == 1 else '', meth),
                           where='%s:%d' % (cls.module.relpath, cls.node.lineno))
            return [None]
        view = view or View()
        opts = opts or Options(integer_dims=view.integer_dims)
        spec_src = self._rename_private_attrs(spec_src, ctx, f)
        extra = self._extra_defaulted_params(f, spec_src)
        if extra:
            # new optional parameters at the end of the signature: the method as every existing caller sees it
            f = f.specialised(extra)
            self.notes.append('%s: new optional parameter(s) %s read at their defaults' % (f.qualname, ', '.join(extra)))
        code = self.paths(ctx, f, opts)
        # the reference is a method of the class it is written for: `super()` in it starts after *that* class, also
        # when the code under comparison is now inherited from a base
        # (a definition moved into a base the confirmed tree does not have stays where it was found: `super()` there is
        # `super()` of the class it was moved out of)
        at_cls = inherited and f.cls is not None and not repo.is_extracted_base(f.cls)
        spec_f = parse_spec_function(spec_src, cls.module if at_cls else f.module, cls if at_cls else f.cls)
        self._compare_signatures(rule, f, spec_f, ctx, cls, own)
        spec_paths, ex2 = function_paths(repo, ctx, spec_f, opts)
        if region is not None:
            cl, sl = loops_of(code), loops_of(spec_paths)
            if len(cl) <= region:
                raise AnalysisError('%s: %s has no loop #%d any more' % (rule, f.where, region))
            code, spec_paths = cl[region].paths, sl[region].paths
        st: dict = {}
        mism = compare_paths(code, spec_paths, view, st, in_loop=region is not None)
        self.stats['pairs_compared'] += st.get('pairs', 0)
        self.stats['feasible_pairs'] += st.get('feasible_pairs', 0)
        n = max(1, st.get('feasible_pairs', 0))
        construct = '%s::%s' % (f.module.relpath, f.qualname if ctx is cls or own else '%s(%s)' % (f.qualname, ctx.name))
        if not mism:
            self.ob(rule, True, n)
            self.sample(rule, construct, what or 'path table equivalent to the reference table',
                        code_paths=len(code), spec_paths=len(spec_paths), feasible_pairs=st.get('feasible_pairs', 0),
                        example_code_path=code[0].describe()[:400] if code else '')
        else:
            self.ob(rule, True, max(0, n - len(mism)))
            for m in mism:
                self.ob(rule, False)
                self.violation(rule, construct, m.key(), '%s: %s' % (what or 'behaviour differs from the property', m.diff),
                               where='%s:%d' % (f.module.relpath, m.line), detail=describe(m))
        return mism

    def _rename_private_attrs(self, spec_src: str, ctx: ClassInfo, f: FuncInfo) -> str:
        """A private attribute (`self._x`) renamed consistently in the whole class is the same program.  If the
        reference uses private attributes that occur *nowhere* in the class (nor its bases) any more, and the method
        uses equally many (at most 2) private attributes the reference does not know, the reference is read with
        those names exchanged (in order of first use).  One map per class, fixed by the first table that needs it."""
        import ast as _ast
        import re as _re
        import textwrap as _tw

        def priv(tree):
            out = []
            for n in _ast.walk(tree):
                if isinstance(n, _ast.Attribute) and isinstance(n.value, _ast.Name) and n.value.id == 'self' \
                        and n.attr.startswith('_') and not n.attr.startswith('__') and n.attr not in out:
                    out.append(n.attr)
            return out
        cache = self.__dict__.setdefault('_priv_maps', {})
        key = ctx.qualname
        if key in cache:
            m = cache[key]
        else:
            try:
                spec_tree = _ast.parse(_tw.dedent(spec_src))
            except SyntaxError:
                return spec_src
            spec_attrs = priv(spec_tree)
            class_attrs = set()
            methods = set()
            for c in ctx.mro():
                methods |= set(c.methods) | set(c.attrs)
                for g in c.methods.values():
                    class_attrs |= set(priv(g.node))
            missing = [a for a in spec_attrs if a not in class_attrs and a not in methods]
            unknown = [a for a in priv(f.node) if a not in spec_attrs and a not in methods]
            if not missing or len(missing) != len(unknown) or len(missing) > 2:
                return spec_src
            m = dict(zip(missing, unknown))
            cache[key] = m
            self.notes.append('private attributes of %s read as renamed: %s' % (ctx.name, m))
        for old_, new_ in m.items():
            spec_src = _re.sub(r'\bself\.%s\b' % _re.escape(old_), 'self.' + new_, spec_src)
        return spec_src

    def _extra_defaulted_params(self, f, spec_src):
        """names of parameters the code has beyond the reference's: only trailing positional parameters with a constant
        default and keyword-only parameters with a constant default qualify (anything else is a signature difference)"""
        import ast as _ast
        import textwrap as _tw
        try:
            sfn = [n for n in _ast.parse(_tw.dedent(spec_src)).body if isinstance(n, _ast.FunctionDef)][0]
        except Exception:
            return []
        a, b = f.node.args, sfn.args
        ca = [x.arg for x in a.posonlyargs + a.args]
        sa = [x.arg for x in b.posonlyargs + b.args]
        out = []
        if len(ca) > len(sa) and not a.vararg:
            tail_ = (a.posonlyargs + a.args)[len(sa):]
            nd = len(a.defaults)
            dflt = [None] * (len(ca) - nd) + list(a.defaults)
            if all(isinstance(dflt[len(sa) + i], _ast.Constant) for i in range(len(tail_))):
                out += [x.arg for x in tail_]
        skw = {x.arg for x in b.kwonlyargs}
        for x, d in zip(a.kwonlyargs, a.kw_defaults):
            if x.arg not in skw and isinstance(d, _ast.Constant):
                out.append(x.arg)
        return out

    def _compare_signatures(self, rule, f, spec_f, ctx, cls, own):
        """number of parameters and default values (canonical terms) agree with the reference"""
        from .terms import term as _t

        import ast as _ast
        import copy as _copy

        def dterm(x, mod):
            # a default that names a private module-level function which only returns an expression of its parameters is
            # the lambda it stands for (`flow2class=_identity` for `flow2class=lambda fid: fid`)
            if isinstance(x, _ast.Name) and x.id.startswith('_'):
                r = self.repo.resolve_name(mod, x.id)
                if r and r[0] == 'func':
                    fn = r[1].node
                    body = [s_ for s_ in fn.body if not (isinstance(s_, _ast.Expr) and isinstance(s_.value, _ast.Constant))]
                    if len(body) == 1 and isinstance(body[0], _ast.Return) and body[0].value is not None and not fn.args.defaults \
                            and not fn.args.vararg and not fn.args.kwarg and not fn.args.kwonlyargs \
                            and not any(isinstance(n, (_ast.Call, _ast.Yield, _ast.YieldFrom)) for n in _ast.walk(body[0].value)):
                        x = _ast.Lambda(args=_ast.arguments(posonlyargs=[], args=[_ast.arg(arg=a_.arg) for a_ in fn.args.args],
                                                            kwonlyargs=[], kw_defaults=[], defaults=[]), body=_copy.deepcopy(body[0].value))
            return _t(x)

        def sig(fn, mod):
            a = fn.args
            pos = a.posonlyargs + a.args
            d = [None] * (len(pos) - len(a.defaults)) + list(a.defaults)
            out = [(dterm(x, mod) if x is not None else None) for x in d]
            kw = [(k.arg, dterm(v, mod) if v is not None else None) for k, v in zip(a.kwonlyargs, a.kw_defaults)]
            return out, kw, bool(a.vararg), bool(a.kwarg)
        a, b = sig(f.node, f.module), sig(spec_f.node, f.module)
        ok = a == b
        self.ob(rule, ok)
        if not ok:
            construct = '%s::%s' % (f.module.relpath, f.qualname)
            self.violation(rule, construct, 'signature defaults %s, reference %s' % (a[0], b[0]),
                           '%s: parameter list / default values differ from the reference (code %s, reference %s)' % (f.qualname, a[0], b[0]),
                           where=f.where)

    # -- finishing -------------------------------------------------------------------
    def finish(self, explanation: str, level_note: str = '') -> int:
        known = load_known()
        new = []
        for fd in self.findings:
            if fd.ident() in known:
                fd.known = True
                print('KNOWN-FINDING: property=%s %s [%s %s]' % (self.prop, fd.message, fd.rule, fd.construct))
            else:
                new.append(fd)
        self.raise_deferred(bool(new))
        for msg in self.floor_errors:
            print('NOTE property=%s (instance count below the confirmed floor, reported together with the violations) %s' % (self.prop, msg))
        replay_dir = os.path.join(EVID_DIR, 'replay')
        os.makedirs(replay_dir, exist_ok=True)
        # remove stale replay files of this property
        for fn in os.listdir(replay_dir):
            if fn.startswith(self.prop + '.'):
                try:
                    os.remove(os.path.join(replay_dir, fn))
                except OSError:
                    pass
        for i, fd in enumerate(new):
            path = os.path.join(replay_dir, '%s.%s.%d.json' % (self.prop, fd.rule, i))
            with open(path, 'w') as fh:
                json.dump({'property': self.prop, 'rule': fd.rule, 'construct': fd.construct, 'where': fd.where,
                           'key': fd.key, 'message': fd.message, 'detail': fd.detail, 'ident': fd.ident()}, fh, indent=1)
            print('%s: [%s] %s' % (fd.where or fd.construct, fd.rule, fd.message))
            if fd.detail:
                print('    ' + fd.detail.replace('\n', '\n    '))
            print('VIOLATION property=%s replay=%s' % (self.prop, path))
        wall = time.time() - self.t0
        ev = {
            'property_id': self.prop,
            'tier': self.tier,
            'seed': int(os.environ.get('VERIF_SEED', '0') or 0),
            'level': 'other',
            'coverage': {
                'explanation': explanation,
                'obligations': self.obligations,
                'discharged': self.discharged,
                'evaluations': max(1, self.obligations),
                'distinct_nontrivial': max(2, len(self.rule_instances)),
                'rule': 'one obligation per rule instance (feasible code-path/spec-path pair, call site, writer '
                        'site, loop region); distinct = distinct rules with at least one instance',
                'rule_instances': self.rule_instances,
                'samples': self.samples[:40] or [{'note': 'no obligations'}],
                'modules_parsed': len(self.repo.modules),
                'files_consulted': sorted(self.consulted),
                'source_digest': self.repo.digest(),
                'exhaustive': True,
                'known_findings': len([f for f in self.findings if f.known]),
                'new_violations': len(new),
                'notes': self.notes,
            },
            'assumptions': self.assumptions + [
                'CPython semantics of generators, heapq, list.sort stability and tuple comparison',
                're-entrancy through out.put(p) is covered only as far as the order of stores and hand-over calls goes',
                'nobody outside /repo/onl writes underscore-prefixed state',
            ],
            'wall_s': round(wall, 3),
            'violations': len(new),
        }
        ev['coverage'].update(self.stats)
        if self.selftest is not None:
            ev['coverage']['selftest'] = self.selftest
        os.makedirs(EVID_DIR, exist_ok=True)
        with open(os.path.join(EVID_DIR, self.prop + '.json'), 'w') as fh:
            json.dump(ev, fh, indent=1, default=str)
        print('%s %s: %d obligations, %d discharged, %d known findings, %d violations, %d rules, %.2fs' % (
            self.prop, self.tier, self.obligations, self.discharged, len([f for f in self.findings if f.known]),
            len(new), len(self.rule_instances), wall))
        return 1 if new else 0


def load_known() -> set:
    out = set()
    if os.path.exists(KNOWN_FILE):
        for line in open(KNOWN_FILE):
            line = line.strip()
            if line.startswith('finding:'):
                body = line[len('finding:'):].strip()
                ident = body.split(' :: ')[0].strip()
                out.add(norm_key(ident))
    return out


def run_check(prop: str, tier: str, fn: Callable[[Ctx], str]) -> int:
    try:
        ctx = Ctx(prop, tier)
        explanation = fn(ctx)
        if tier == 'thorough':
            from . import selftest
            ctx.selftest = selftest.run_for(prop, ctx)
        return ctx.finish(explanation)
    except AnalysisError as e:
        print('ANALYSIS-ERROR property=%s %s' % (prop, e))
        return 2
    except Exception as e:  # internal problem: never a VIOLATION
        traceback.print_exc()
        print('ANALYSIS-ERROR property=%s internal error: %s: %s' % (prop, type(e).__name__, e))
        return 2
