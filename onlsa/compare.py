"""Comparison of a function's path table with the path table of a reference
function (the property's own semantics written in the clearest Python).

Two path sets are *equivalent* when for every pair (code path, spec path)
whose branch conditions can hold together (regions.solve) the observable
outcomes agree.  The observable outcome of a path is

  * per suspension segment (yields split a path into segments):
      - the ordered list of external events: calls, yields, writes to objects
        other than ``self`` (a packet's fields), nested loops;
      - the net effect on ``self`` fields (last write wins);
  * the way the path ends (fall / return value / raise type / break / ...).

Unobserved details (debug prints, fields outside the declared alphabet) are
dropped on both sides.  A spec path may contain ``DONTCARE()`` (cell left open
by the property) or ``DONTCARE('prefix', ...)`` (events on these targets are
left open).
"""
from __future__ import annotations

import re
from typing import Dict, Iterable, List, Optional, Tuple

from .paths import Path, Effect, Region
from .regions import solve, witness_str
from .terms import lit_str


class View:
    """what is observed when two paths are compared"""

    def __init__(self, ignore_calls=(), ignore_targets=(), observe_only=None, ignore_exit_value=False,
                 integer_dims=(), unordered_calls=(), ignore_asserts=True, rename=None, only_calls=None):
        self.only_calls = tuple(only_calls) if only_calls is not None else None
        self.ignore_calls = tuple(ignore_calls)
        self.ignore_targets = tuple(ignore_targets)
        self.observe_only = tuple(observe_only) if observe_only else None
        self.ignore_exit_value = ignore_exit_value
        self.integer_dims = tuple(integer_dims)
        self.unordered_calls = tuple(unordered_calls)
        self.ignore_asserts = ignore_asserts
        self.rename = rename or {}

    def _match(self, s: str, pats) -> bool:
        for p in pats:
            if p.endswith('*'):
                if s.startswith(p[:-1]):
                    return True
            elif p.startswith('*'):
                if s.endswith(p[1:]):
                    return True
            elif s == p or s.startswith(p + '.') or s.startswith(p + '['):
                return True
        return False

    def keep_call(self, callee: str) -> bool:
        short = callee.split('.')[-1]
        if callee == 'DONTCARE':
            return False
        if self._match(callee, self.ignore_calls) or short in self.ignore_calls:
            return False
        if self.only_calls is not None:
            return self._match(callee, self.only_calls) or short in self.only_calls
        return True

    def keep_target(self, target: str) -> bool:
        if self._match(target, self.ignore_targets):
            return False
        if self.observe_only is not None:
            return self._match(target, self.observe_only)
        return True


class Outcome:
    def __init__(self):
        self.segments: List[Tuple[List[str], Dict[str, str]]] = [([], {})]
        self.exit = ''
        self.dontcare_all = False
        self.dontcare: List[str] = []
        self.loops: List[Tuple[str, Region]] = []

    def canon(self, dontcare: Iterable[str] = ()):
        dc = tuple(dontcare)

        def hidden(s):
            return any(s.startswith(d) for d in dc)
        segs = []
        for events, writes in self.segments:
            ev = [e for e in events if not hidden(e.split(' ', 1)[1] if ' ' in e else e)]
            wr = tuple(sorted((k, v) for k, v in writes.items() if not hidden(k)))
            segs.append((tuple(ev), wr))
        # drop empty trailing segments that differ only by structure
        return (tuple(segs), self.exit)


_KERNEL_STORES = ('self.store', 'self.stores', 'self.packets_available', 'self.cwnd_avaialbe', 'self.store.')


def _hands_over(target: str) -> bool:
    """a call that gives a packet to another element: <something>.put(..) that is not one of the element's own kernel
    stores"""
    if not target.endswith('.put'):
        return False
    recv = target[:-4]
    if recv in ('self.store', 'self.packets_available', 'self.cwnd_avaialbe') or recv.startswith('self.stores'):
        return False
    if recv.startswith('super()'):
        return False
    return True


def outcome_of(p: Path, view: View, in_loop: bool = False) -> Outcome:
    o = Outcome()
    for e in p.effects:
        if e.kind == 'call':
            if e.target == 'DONTCARE':
                if e.args:
                    o.dontcare.extend(a.strip("'\"") for a in e.args)
                else:
                    o.dontcare_all = True
                continue
            if not view.keep_call(e.target):
                continue
            a = list(e.args) + sorted('%s=%s' % kv for kv in e.kwargs)
            if _hands_over(e.target):
                # the next element runs inside this call and may look back at this one (a synchronous ACK, a
                # recirculated packet, a back-pressure probe): what has been stored so far is what it sees, so
                # the stores made before the hand-over are ordered before it
                events, writes = o.segments[-1]
                for k in sorted(writes):
                    events.append('write %s := %s' % (k, writes.pop(k)))
            o.segments[-1][0].append('call %s(%s)' % (e.target, ', '.join(a)))
        elif e.kind == 'yield':
            o.segments[-1][0].append('yield %s' % e.value)
            o.segments.append(([], {}))
        elif e.kind == 'write':
            if not view.keep_target(e.target):
                continue
            if e.target.startswith('self.') or e.target == 'self':
                o.segments[-1][1][e.target] = e.value
            else:
                o.segments[-1][0].append('write %s := %s' % (e.target, e.value))
        elif e.kind == 'del':
            if view.keep_target(e.target):
                o.segments[-1][0].append('del %s' % e.target)
        elif e.kind == 'assert':
            if not view.ignore_asserts:
                o.segments[-1][0].append('assert %s' % e.value)
        elif e.kind == 'loop':
            # state the loop body can see must be in place before it starts; the rest of the
            # net state carries across a loop that never suspends
            text = _region_text(e.region)
            events, writes = o.segments[-1]
            for k in sorted(writes):
                fld = k.split('[')[0]
                if fld in text or k in text:
                    events.append('write %s := %s' % (k, writes.pop(k)))
            events.append('loop %s' % e.target)
            o.loops.append((e.target, e.region))
            if _region_yields(e.region):
                o.segments.append(([], {}))
        elif e.kind == 'except':
            o.segments[-1][0].append('except %s' % e.target)
    # two neighbours that touch different objects have no order: filing an object into a container of self
    # (self.xs.append(p)) and storing a field of that object (p.f = v) commute - a field store on a parameter object is
    # moved in front of such a container call, so that both orders read alike
    import re as _re
    mut = _re.compile(r'^call self\.[A-Za-z_]\w*(\[[^\]]*\])?\.(append|appendleft|add|insert|remove|discard)\(')
    pw = _re.compile(r'^write @p\d+\.[A-Za-z_]\w* := ')
    for events, _w in o.segments:
        changed = True
        while changed:
            changed = False
            for i in range(len(events) - 1):
                if mut.match(events[i]) and pw.match(events[i + 1]) and '@self.' not in events[i + 1].split(' := ', 1)[1]:
                    events[i], events[i + 1] = events[i + 1], events[i]
                    changed = True
    ex = p.exit
    if ex in ('return', 'raise') and not (view.ignore_exit_value and ex == 'return'):
        ex = '%s %s' % (ex, p.exit_value)
    if in_loop:
        # inside a loop body falling off the end and `continue` both start the next iteration;
        # `return` leaves the function and is something else
        if ex in ('fall', 'continue'):
            ex = 'next-iteration'
    else:
        if ex in ('return None', 'return', 'fall'):
            ex = 'end'
    o.exit = ex
    return o


def _region_text(region) -> str:
    parts = [region.header or '']
    for p in region.paths:
        parts.append(p.cond_str())
        for e in p.effects:
            parts.append(e.key())
            if e.kind == 'loop':
                parts.append(_region_text(e.region))
    return ' ; '.join(parts)


def _region_yields(region) -> bool:
    for p in region.paths:
        for e in p.effects:
            if e.kind == 'yield':
                return True
            if e.kind == 'loop' and _region_yields(e.region):
                return True
    return False


class Mismatch:
    def __init__(self, code_path: Path, spec_path: Path, witness, code_out, spec_out, diff: str, line: int):
        self.code_path = code_path
        self.spec_path = spec_path
        self.witness = witness
        self.code_out = code_out
        self.spec_out = spec_out
        self.diff = diff
        self.line = line

    def key(self) -> str:
        # normalised, line-free: the differing observation
        return re.sub(r'\s+', ' ', self.diff)[:300]


def _first_diff(a, b) -> str:
    (sa, ea), (sb, eb) = a, b
    for i in range(max(len(sa), len(sb))):
        if i >= len(sa):
            return 'spec has a further segment %s; code ends' % (sb[i],)
        if i >= len(sb):
            return 'code has a further segment %s; spec ends' % (sa[i],)
        (eva, wra), (evb, wrb) = sa[i], sb[i]
        if eva != evb:
            for j in range(max(len(eva), len(evb))):
                x = eva[j] if j < len(eva) else '(nothing)'
                y = evb[j] if j < len(evb) else '(nothing)'
                if x != y:
                    return 'event #%d of segment %d: code `%s` / spec `%s`' % (j + 1, i + 1, x, y)
        if wra != wrb:
            da, db = dict(wra), dict(wrb)
            for k in sorted(set(da) | set(db)):
                if da.get(k) != db.get(k):
                    return 'state %s: code `%s` / spec `%s`' % (k, da.get(k, '(unchanged)'), db.get(k, '(unchanged)'))
    if ea != eb:
        return 'exit: code `%s` / spec `%s`' % (ea, eb)
    return 'outcomes differ'


def _effect_line(p: Path, diff: str) -> int:
    for e in p.effects:
        if e.key().split(' ', 1)[-1][:40] in diff:
            return e.lineno
    if p.lits:
        return p.lits[-1][2]
    return p.exit_line


def compare_paths(code: List[Path], spec: List[Path], view: View, stats: Optional[dict] = None,
                  depth: int = 0, in_loop: bool = False) -> List[Mismatch]:
    """all mismatching feasible (code path, spec path) pairs"""
    out: List[Mismatch] = []
    stats = stats if stats is not None else {}
    couts = [outcome_of(p, view, in_loop) for p in code]
    souts = [outcome_of(p, view, in_loop) for p in spec]
    seen_keys = set()
    for pc, oc in zip(code, couts):
        if solve([(a, pol) for a, pol, _ in pc.lits], view.integer_dims) is None:
            stats['infeasible_code_paths'] = stats.get('infeasible_code_paths', 0) + 1
            continue
        partners = 0
        for ps, os_ in zip(spec, souts):
            if solve([(a, pol) for a, pol, _ in pc.lits] + [(a, pol) for a, pol, _ in ps.lits], view.integer_dims) is not None:
                partners += 1
        if partners == 0 and spec:
            d = 'no reference path covers the region of code path [%s]' % pc.cond_str()
            out.append(Mismatch(pc, spec[0], {}, oc.canon(), souts[0].canon(), d, pc.lits[-1][2] if pc.lits else pc.exit_line))
            continue
        for ps, os_ in zip(spec, souts):
            lits = [(a, pol) for a, pol, _ in pc.lits] + [(a, pol) for a, pol, _ in ps.lits]
            w = solve(lits, view.integer_dims)
            stats['pairs'] = stats.get('pairs', 0) + 1
            if w is None:
                continue
            stats['feasible_pairs'] = stats.get('feasible_pairs', 0) + 1
            if os_.dontcare_all:
                stats['dontcare'] = stats.get('dontcare', 0) + 1
                continue
            dc = os_.dontcare
            a, b = oc.canon(dc), os_.canon(dc)
            if a != b:
                d = _first_diff(a, b)
                if d not in seen_keys:
                    seen_keys.add(d)
                    out.append(Mismatch(pc, ps, w, a, b, d, _effect_line(pc, d)))
                continue
            # same events: descend into the loops they contain
            for (hc, rc), (hs, rs) in zip(oc.loops, os_.loops):
                sub = compare_paths(rc.paths, rs.paths, view, stats, depth + 1, in_loop=True)
                for m in sub:
                    if m.diff not in seen_keys:
                        seen_keys.add(m.diff)
                        out.append(m)
    # the other direction: a region the reference handles but no code path reaches (the code asserts it away)
    if depth == 0 or True:
        for ps, os_ in zip(spec, souts):
            if os_.dontcare_all:
                continue
            sl = [(a, pol) for a, pol, _ in ps.lits]
            if solve(sl, view.integer_dims) is None:
                continue
            if not any(solve(sl + [(a, pol) for a, pol, _ in pc.lits], view.integer_dims) is not None for pc in code):
                d = 'no code path covers the region [%s] that the property handles (asserted away or missing branch)' % ps.cond_str()
                if d not in seen_keys and code:
                    seen_keys.add(d)
                    out.append(Mismatch(code[0], ps, {}, couts[0].canon(), os_.canon(), d,
                                        code[0].lits[-1][2] if code[0].lits else code[0].exit_line))
    return out


def describe(m: Mismatch) -> str:
    return ('in the region {%s}: %s\n      code path: %s\n      spec path: %s' % (
        witness_str(m.witness), m.diff, m.code_path.describe(), m.spec_path.describe()))
