"""python -m onlsa check <ID> [--tier quick|thorough] | replay <file> | selfcheck"""
import importlib
import json
import os
import sys

from .core import run_check


def main(argv):
    if not argv:
        print(__doc__)
        return 2
    cmd = argv[0]
    if cmd == 'check':
        prop = argv[1]
        tier = os.environ.get('VERIF_TIER', 'quick')
        if '--tier' in argv:
            tier = argv[argv.index('--tier') + 1]
        try:
            importlib.import_module('onlsa.rules.%s' % prop.lower())
        except ImportError as e:
            print('ANALYSIS-ERROR property=%s no rule module: %s' % (prop, e))
            return 2
        from .rules import check_property
        return run_check(prop, tier, lambda ctx: check_property(prop, ctx))
    if cmd == 'replay':
        d = json.load(open(argv[1]))
        print('replay: re-running the check of property %s (rule %s, construct %s)' % (d['property'], d['rule'], d['construct']))
        print('recorded: %s\n%s' % (d['message'], d.get('detail', '')))
        return main(['check', d['property']])
    if cmd == 'selfcheck':
        from .model import Repo
        r = Repo(os.environ.get('ONLSA_REPO', '/repo'))
        print('parsed %d modules, %d classes' % (len(r.modules), len(r.all_classes())))
        return 0
    print(__doc__)
    return 2


if __name__ == '__main__':
    sys.exit(main(sys.argv[1:]))
