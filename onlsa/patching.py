"""Apply a unified diff (as written by `git diff`) to source texts held in memory.

Used by the thorough tier to replay the stored seeded defects and refactorings
against the *current* sources of /repo through the Repo overlay, without
touching any file.  A hunk whose context no longer matches is an error for that
patch only (the patch is then counted as skipped, never as a verdict)."""
from __future__ import annotations

import re
from typing import Dict, List, Tuple


class PatchError(Exception):
    pass


_HUNK = re.compile(r'^@@ -(\d+)(?:,(\d+))? \+(\d+)(?:,(\d+))? @@')


def parse(diff_text: str) -> List[Tuple[str, List[Tuple[int, List[str]]]]]:
    """-> [(relpath, [(old_start, hunk_lines)])]"""
    files = []
    cur = None
    lines = diff_text.splitlines()
    i = 0
    while i < len(lines):
        ln = lines[i]
        if ln.startswith('+++ '):
            path = ln[4:].strip()
            if path.startswith('b/'):
                path = path[2:]
            cur = (path, [])
            files.append(cur)
        elif ln.startswith('@@') and cur is not None:
            m = _HUNK.match(ln)
            if not m:
                raise PatchError('bad hunk header: ' + ln)
            start = int(m.group(1))
            body = []
            i += 1
            while i < len(lines) and not lines[i].startswith('@@') and not lines[i].startswith('diff --git') \
                    and not lines[i].startswith('--- '):
                if lines[i].startswith('\\'):
                    i += 1
                    continue
                body.append(lines[i])
                i += 1
            cur[1].append((start, body))
            continue
        i += 1
    return files


def apply(sources: Dict[str, str], diff_text: str) -> Dict[str, str]:
    """sources: relpath -> text (only the files the patch touches are needed).  Returns the new texts."""
    out = {}
    for path, hunks in parse(diff_text):
        if path == '/dev/null':
            raise PatchError('file deletion not supported')
        if path not in sources:
            raise PatchError('patch touches %s which is not available' % path)
        old = sources[path].split('\n')
        new: List[str] = []
        pos = 0
        for start, body in hunks:
            before = [l[1:] for l in body if l[:1] in (' ', '-', '')]
            # locate the hunk: at its recorded position or nearby (the file may have moved a little)
            at = None
            cand = [start - 1] + [start - 1 + d for k in range(1, 200) for d in (k, -k)]
            for c in cand:
                if c < pos or c < 0 or c + len(before) > len(old):
                    continue
                if old[c:c + len(before)] == before:
                    at = c
                    break
            if at is None:
                raise PatchError('hunk at line %d of %s does not apply' % (start, path))
            new.extend(old[pos:at])
            for l in body:
                if l[:1] == ' ':
                    new.append(l[1:])
                elif l[:1] == '+':
                    new.append(l[1:])
                elif l[:1] == '-':
                    pass
                elif l == '':
                    new.append('')
            pos = at + len(before)
        new.extend(old[pos:])
        out[path] = '\n'.join(new)
    return out
