"""Thorough tier: checker self-validation.

The *checker* (never the repository) is run on in-memory variants of the
functions a property's rules consulted:

* breaking variants - one AST-computed edit each (comparison flipped, guard
  negated, statement deleted, +/- swapped, constant changed, tuple components
  swapped, URGENT<->NORMAL ...).  Expected: the check reports a violation (or
  an analysis error).  Survivors are listed (many are equivalent mutants, e.g.
  in a debug branch); they never turn into a VIOLATION of /repo.
* refactoring twins - behaviour-preserving edits (operands swapped, a < b as
  b > a / not a >= b, x += e as x = x + e, if/else mirrored, a temporary for a
  guard, a local renamed, whole module re-printed).  Expected: silence.  A twin
  that raises an alarm is a checker bug and is reported as SELFTEST-GAP.

Variants exist only in memory (Repo overlay); nothing is written to /repo.
"""
from __future__ import annotations

import ast
import copy
import importlib
import os
import random
from concurrent.futures import ProcessPoolExecutor
from typing import Dict, List, Tuple

from .core import Ctx, REPO_ROOT, load_known
from .model import AnalysisError

SWAP_CMP = {ast.Lt: ast.LtE, ast.LtE: ast.Lt, ast.Gt: ast.GtE, ast.GtE: ast.Gt, ast.Eq: ast.NotEq, ast.NotEq: ast.Eq,
            ast.Is: ast.IsNot, ast.IsNot: ast.Is, ast.In: ast.NotIn, ast.NotIn: ast.In}
MIRROR = {ast.Lt: ast.Gt, ast.Gt: ast.Lt, ast.LtE: ast.GtE, ast.GtE: ast.LtE}
NEGATED = {ast.Lt: ast.GtE, ast.GtE: ast.Lt, ast.Gt: ast.LtE, ast.LtE: ast.Gt}


def _find_function(tree: ast.Module, qualname: str):
    parts = qualname.split('.')
    body = tree.body
    node = None
    for i, p in enumerate(parts):
        found = None
        stack = list(body)
        while stack:
            s = stack.pop(0)
            if isinstance(s, (ast.ClassDef, ast.FunctionDef)) and s.name == p:
                found = s
                break
            if isinstance(s, ast.If):
                stack = list(s.body) + list(s.orelse) + stack
        if found is None:
            return None
        node = found
        body = found.body
    return node if isinstance(node, ast.FunctionDef) else None


def _in_noise(parents, n) -> bool:
    """inside a raise message, a print/dprint call, an f-string or a debug branch"""
    p = n
    while p is not None:
        if isinstance(p, (ast.Raise, ast.JoinedStr)):
            return True
        if isinstance(p, ast.Call):
            f = p.func
            nm = f.id if isinstance(f, ast.Name) else f.attr if isinstance(f, ast.Attribute) else ''
            if nm in ('print', 'dprint', 'format'):
                return True
        if isinstance(p, ast.If) and ast.unparse(p.test) in ('self.debug',):
            return True
        p = parents.get(p)
    return False


def _sites(fn: ast.FunctionDef):
    parents = {}
    order = []
    for n in ast.walk(fn):
        for c in ast.iter_child_nodes(n):
            parents[c] = n
    # deterministic pre-order
    def pre(x):
        order.append(x)
        for c in ast.iter_child_nodes(x):
            pre(c)
    pre(fn)
    return order, parents


def _is_docstring(stmt) -> bool:
    return isinstance(stmt, ast.Expr) and isinstance(stmt.value, ast.Constant) and isinstance(stmt.value.value, str)


def gen_variants(src: str, qualname: str, kinds=('break', 'twin')) -> List[Tuple[str, str, str]]:
    """-> [(kind, description, new_source)]"""
    out = []
    base = ast.parse(src)
    fn0 = _find_function(base, qualname)
    if fn0 is None:
        return out
    order0, parents0 = _sites(fn0)

    def variant(idx, edit, kind, desc):
        tree = ast.parse(src)
        fn = _find_function(tree, qualname)
        order, parents = _sites(fn)
        n = order[idx]
        r = edit(n, parents, fn)
        if r is False:
            return
        if kind == 'twin+helper':
            helper = getattr(fn, '_helper', None)
            owner = None
            for c in ast.walk(tree):
                if isinstance(c, ast.ClassDef) and fn in c.body:
                    owner = c
            if getattr(helper, 'name', None) is None or owner is None:
                return
            owner.body.append(helper)
            kind = 'twin'
        ast.fix_missing_locations(tree)
        try:
            new = ast.unparse(tree)
            compile(new, '<variant>', 'exec')
        except Exception:
            return
        out.append((kind, '%s @%s line %d: %s' % (qualname, type(order0[idx]).__name__, getattr(order0[idx], 'lineno', 0), desc), new))

    annotated = set()
    for n in order0:
        for fld in ('annotation', 'returns'):
            a = getattr(n, fld, None)
            if isinstance(a, ast.AST):
                for x in ast.walk(a):
                    annotated.add(id(x))
    for i, n in enumerate(order0):
        if id(n) in annotated:
            continue
        noise = _in_noise(parents0, n)
        # ----------------------------------------------------------- breaking variants
        if 'break' in kinds and not noise:
            if isinstance(n, ast.Compare) and len(n.ops) == 1 and type(n.ops[0]) in SWAP_CMP:
                def e(m, P, F):
                    m.ops = [SWAP_CMP[type(m.ops[0])]()]
                variant(i, e, 'break', 'comparison %s -> %s' % (type(n.ops[0]).__name__, SWAP_CMP[type(n.ops[0])].__name__))
            if isinstance(n, (ast.If, ast.While)) and not (isinstance(n.test, ast.Constant)):
                def e(m, P, F):
                    m.test = ast.UnaryOp(op=ast.Not(), operand=m.test)
                variant(i, e, 'break', 'guard negated: %s' % ast.unparse(n.test)[:60])
            if isinstance(n, ast.BoolOp):
                def e(m, P, F):
                    m.op = ast.Or() if isinstance(m.op, ast.And) else ast.And()
                variant(i, e, 'break', 'and <-> or')
            if isinstance(n, ast.BinOp) and isinstance(n.op, (ast.Add, ast.Sub, ast.Mult, ast.Div)):
                def e(m, P, F):
                    m.op = {ast.Add: ast.Sub, ast.Sub: ast.Add, ast.Mult: ast.Div, ast.Div: ast.Mult}[type(m.op)]()
                variant(i, e, 'break', 'operator %s swapped' % type(n.op).__name__)
            if isinstance(n, ast.AugAssign) and isinstance(n.op, (ast.Add, ast.Sub)):
                def e(m, P, F):
                    m.op = ast.Sub() if isinstance(m.op, ast.Add) else ast.Add()
                variant(i, e, 'break', 'augmented %s swapped' % type(n.op).__name__)
            if isinstance(n, ast.Constant) and isinstance(n.value, (int, float)) and not isinstance(n.value, bool):
                par = parents0.get(n)
                if not (isinstance(par, ast.Expr)):
                    def e(m, P, F):
                        m.value = m.value + 1
                    variant(i, e, 'break', 'constant %r -> %r' % (n.value, n.value + 1))
            if isinstance(n, ast.Constant) and isinstance(n.value, bool):
                def e(m, P, F):
                    m.value = not m.value
                variant(i, e, 'break', 'constant %r flipped' % n.value)
            if isinstance(n, ast.Name) and n.id in ('URGENT', 'NORMAL') and isinstance(n.ctx, ast.Load):
                def e(m, P, F):
                    m.id = 'NORMAL' if m.id == 'URGENT' else 'URGENT'
                variant(i, e, 'break', '%s swapped' % n.id)
            if isinstance(n, ast.Tuple) and isinstance(n.ctx, ast.Load) and len(n.elts) >= 2 and \
                    ast.unparse(n.elts[0]) != ast.unparse(n.elts[1]):
                def e(m, P, F):
                    m.elts[0], m.elts[1] = m.elts[1], m.elts[0]
                variant(i, e, 'break', 'first two tuple components swapped')
            if isinstance(n, ast.Call) and isinstance(n.func, ast.Attribute) and n.func.attr == 'pop' and len(n.args) == 1 \
                    and isinstance(n.args[0], ast.Constant) and n.args[0].value == 0:
                def e(m, P, F):
                    m.args = []
                variant(i, e, 'break', 'pop(0) -> pop()')
            if isinstance(n, (ast.Expr, ast.Assign, ast.AugAssign, ast.Break, ast.Continue, ast.Delete)) and not _is_docstring(n):
                if isinstance(n, ast.Expr) and isinstance(n.value, (ast.Yield, ast.YieldFrom)) is False or not isinstance(n, ast.Expr):
                    def e(m, P, F):
                        par = P.get(m)
                        for fld in ('body', 'orelse', 'finalbody'):
                            blk = getattr(par, fld, None)
                            if isinstance(blk, list) and m in blk:
                                blk[blk.index(m)] = ast.Pass()
                                return
                        return False
                    variant(i, e, 'break', 'statement deleted: %s' % ast.unparse(n).split('\n')[0][:70])
            if isinstance(n, ast.Expr) and isinstance(n.value, ast.Call) and isinstance(n.value.func, ast.Attribute) \
                    and n.value.func.attr == 'put':
                def e(m, P, F):
                    par = P.get(m)
                    for fld in ('body', 'orelse', 'finalbody'):
                        blk = getattr(par, fld, None)
                        if isinstance(blk, list) and m in blk:
                            blk.insert(blk.index(m), copy.deepcopy(m))
                            return
                    return False
                variant(i, e, 'break', 'statement duplicated: %s' % ast.unparse(n)[:70])
        # ----------------------------------------------------------- refactoring twins
        if 'twin' in kinds:
            if isinstance(n, ast.Compare) and len(n.ops) == 1 and type(n.ops[0]) in MIRROR:
                def e(m, P, F):
                    m.left, m.comparators = m.comparators[0], [m.left]
                    m.ops = [MIRROR[type(m.ops[0])]()]
                variant(i, e, 'twin', 'a %s b mirrored' % type(n.ops[0]).__name__)

                # `a >= b` and `not (a < b)` differ when an operand is a NaN (H3/H5: that difference is a defect
                # class of its own), so this rewriting is a twin only where an operand is an integer by construction
                def _intish(x):
                    return (isinstance(x, ast.Call) and isinstance(x.func, ast.Name) and x.func.id == 'len') or \
                           (isinstance(x, ast.BinOp) and isinstance(x.op, (ast.Mod, ast.FloorDiv)))
                nan_free = _intish(n.left) or _intish(n.comparators[0])

                def e2(m, P, F):
                    par = P.get(m)
                    neg = ast.UnaryOp(op=ast.Not(), operand=ast.Compare(left=m.left, ops=[NEGATED[type(m.ops[0])]()],
                                                                         comparators=m.comparators))
                    for fld, val in ast.iter_fields(par):
                        if val is m:
                            setattr(par, fld, neg)
                            return
                        if isinstance(val, list) and m in val:
                            val[val.index(m)] = neg
                            return
                    return False
                if nan_free:
                    variant(i, e2, 'twin', 'a %s b as not (a %s b)' % (type(n.ops[0]).__name__, NEGATED[type(n.ops[0])].__name__))
            if isinstance(n, ast.BinOp) and isinstance(n.op, (ast.Add, ast.Mult)) and not noise:
                strish = lambda x: isinstance(x, (ast.JoinedStr, ast.List, ast.Tuple)) or (isinstance(x, ast.Constant) and isinstance(x.value, str))
                if not strish(n.left) and not strish(n.right) and not (isinstance(n.left, ast.BinOp) and isinstance(n.left.op, ast.Mod)):
                    def e(m, P, F):
                        m.left, m.right = m.right, m.left
                    variant(i, e, 'twin', 'operands of %s swapped' % type(n.op).__name__)
            if isinstance(n, ast.AugAssign) and isinstance(n.target, (ast.Name, ast.Attribute)):
                def e(m, P, F):
                    par = P.get(m)
                    load = copy.deepcopy(m.target)
                    load.ctx = ast.Load()
                    new = ast.Assign(targets=[m.target], value=ast.BinOp(left=load, op=m.op, right=m.value))
                    for fld in ('body', 'orelse', 'finalbody'):
                        blk = getattr(par, fld, None)
                        if isinstance(blk, list) and m in blk:
                            blk[blk.index(m)] = new
                            return
                    return False
                variant(i, e, 'twin', 'x op= e as x = x op e')
            if isinstance(n, ast.If) and n.orelse:
                def e(m, P, F):
                    m.test = ast.UnaryOp(op=ast.Not(), operand=m.test)
                    m.body, m.orelse = m.orelse, m.body
                variant(i, e, 'twin', 'if/else mirrored')
            if isinstance(n, ast.If) and not any(isinstance(x, (ast.Yield, ast.YieldFrom, ast.NamedExpr)) for x in ast.walk(n.test)):
                def e(m, P, F):
                    par = P.get(m)
                    for fld in ('body', 'orelse', 'finalbody'):
                        blk = getattr(par, fld, None)
                        if isinstance(blk, list) and m in blk:
                            tmp = ast.Assign(targets=[ast.Name(id='_guard_tmp', ctx=ast.Store())], value=m.test)
                            m.test = ast.Name(id='_guard_tmp', ctx=ast.Load())
                            blk.insert(blk.index(m), tmp)
                            return
                    return False
                # an `elif` cannot take a statement in front of it
                par = parents0.get(n)
                is_elif = isinstance(par, ast.If) and par.orelse == [n] and n.col_offset == par.col_offset
                if not is_elif:
                    variant(i, e, 'twin', 'temporary for the guard')
    if 'twin' in kinds:
        _structural_twins(src, qualname, fn0, order0, parents0, variant)
    if 'twin' in kinds:
        # rename one local
        locs = []
        params = {a.arg for a in fn0.args.args + fn0.args.kwonlyargs}
        for n in order0:
            if isinstance(n, ast.Name) and isinstance(n.ctx, ast.Store) and n.id not in params and n.id not in locs and n.id != '_':
                locs.append(n.id)
        for nm in locs[:3]:
            def e(m, P, F, nm=nm):
                for x in ast.walk(F):
                    if isinstance(x, ast.Name) and x.id == nm:
                        x.id = nm + '_renamed'
                    if isinstance(x, ast.ExceptHandler) and x.name == nm:
                        x.name = nm + '_renamed'
            variant(0, e, 'twin', 'local %s renamed' % nm)

        def e(m, P, F):
            F.body.insert(1 if _is_docstring(F.body[0]) else 0, ast.Pass())
        variant(0, e, 'twin', 'pass inserted')
    return out


def _names(node, ctx_type):
    return {n.id for n in ast.walk(node) if isinstance(n, ast.Name) and isinstance(n.ctx, ctx_type)}


def _has_ctl(node) -> bool:
    return any(isinstance(n, (ast.Yield, ast.YieldFrom, ast.Return, ast.Break, ast.Continue, ast.Raise, ast.Assert))
               for n in ast.walk(node))


def _self_reads(node):
    return {n.attr for n in ast.walk(node) if isinstance(n, ast.Attribute) and isinstance(n.ctx, ast.Load)
            and isinstance(n.value, ast.Name) and n.value.id == 'self'}


def _self_writes(node):
    out = set()
    for n in ast.walk(node):
        if isinstance(n, ast.Attribute) and isinstance(n.ctx, ast.Store) and isinstance(n.value, ast.Name) and n.value.id == 'self':
            out.add(n.attr)
    return out


def _structural_twins(src, qualname, fn0, order0, parents0, variant):
    """behaviour-preserving restructurings: nested if for `and`, early return for a trailing if/else,
    adjacent independent field assignments swapped, a guard-free block extracted into a helper method"""
    params = {a.arg for a in fn0.args.args + fn0.args.kwonlyargs}
    is_method = bool(fn0.args.args) and fn0.args.args[0].arg == 'self'
    for i, n in enumerate(order0):
        # (b) if a and b: X   ->   if a: if b: X        (no else)
        if isinstance(n, ast.If) and not n.orelse and isinstance(n.test, ast.BoolOp) and isinstance(n.test.op, ast.And) \
                and len(n.test.values) == 2:
            def e(m, P, F):
                a, b = m.test.values
                m.test = a
                m.body = [ast.If(test=b, body=m.body, orelse=[])]
            variant(i, e, 'twin', '`if a and b` as nested ifs')
        # (c) trailing if/else of the function body -> early return
        if isinstance(n, ast.If) and n.orelse and parents0.get(n) is fn0 and fn0.body and fn0.body[-1] is n \
                and not any(isinstance(x, (ast.Yield, ast.YieldFrom)) for x in ast.walk(fn0)):
            def e(m, P, F):
                rest = m.orelse
                m.orelse = []
                if not isinstance(m.body[-1], (ast.Return, ast.Raise)):
                    m.body.append(ast.Return(value=None))
                F.body.extend(rest)
            variant(i, e, 'twin', 'trailing if/else as early return')
        # (d) swap two adjacent independent plain assignments
        par = parents0.get(n)
        if isinstance(n, (ast.Assign, ast.AugAssign)) and par is not None:
            for fld in ('body', 'orelse'):
                blk = getattr(par, fld, None)
                if isinstance(blk, list) and n in blk:
                    k = blk.index(n)
                    if k + 1 < len(blk) and isinstance(blk[k + 1], (ast.Assign, ast.AugAssign)):
                        a, b = n, blk[k + 1]
                        calls = any(isinstance(x, (ast.Call, ast.Yield, ast.YieldFrom, ast.Subscript)) for x in list(ast.walk(a)) + list(ast.walk(b)))
                        wa, wb = _self_writes(a) | _names(a, ast.Store), _self_writes(b) | _names(b, ast.Store)
                        ra, rb = _self_reads(a) | _names(a, ast.Load), _self_reads(b) | _names(b, ast.Load)
                        if isinstance(a, ast.AugAssign):
                            ra |= wa
                        if isinstance(b, ast.AugAssign):
                            rb |= wb
                        nonself = any(isinstance(x, ast.Attribute) and isinstance(x.ctx, ast.Store) and not (isinstance(x.value, ast.Name) and x.value.id == 'self')
                                      for x in list(ast.walk(a)) + list(ast.walk(b)))
                        if not calls and not nonself and not (wa & (wb | rb)) and not (wb & ra):
                            def e(m, P, F, fld=fld):
                                bl = getattr(P.get(m), fld)
                                j = bl.index(m)
                                bl[j], bl[j + 1] = bl[j + 1], bl[j]
                            variant(i, e, 'twin', 'adjacent independent assignments swapped')
        # (a) extract a block that uses only self and parameters into a helper method
        if is_method and isinstance(n, (ast.If, ast.Assign, ast.AugAssign, ast.Expr)) and parents0.get(n) is fn0 \
                and not _has_ctl(n) and not (isinstance(n, ast.Expr) and isinstance(n.value, ast.Constant)):
            loads = _names(n, ast.Load) - {'self'}
            stores = _names(n, ast.Store)
            import builtins
            free = {x for x in loads if x not in params and not hasattr(builtins, x)}
            # module-level names (imports, globals) are fine inside a method too
            mod_names = {t.id for t in ast.walk(ast.parse(src)) if isinstance(t, ast.Name)} if False else set()
            locals_assigned = {x.id for st in fn0.body for x in ast.walk(st) if isinstance(x, ast.Name) and isinstance(x.ctx, ast.Store)}
            if not (free & locals_assigned) and not stores and 'super' not in loads:
                used_params = [a.arg for a in fn0.args.args[1:] if a.arg in loads]
                def e(m, P, F, used=used_params):
                    cls = None
                    tree_cls = P.get(F)
                    helper = ast.FunctionDef(name='_extracted_helper', args=ast.arguments(
                        posonlyargs=[], args=[ast.arg(arg='self')] + [ast.arg(arg=u) for u in used], kwonlyargs=[], kw_defaults=[], defaults=[]),
                        body=[m], decorator_list=[], returns=None, type_comment=None, type_params=[])
                    call = ast.Expr(value=ast.Call(func=ast.Attribute(value=ast.Name(id='self', ctx=ast.Load()), attr='_extracted_helper', ctx=ast.Load()),
                                                   args=[ast.Name(id=u, ctx=ast.Load()) for u in used], keywords=[]))
                    F.body[F.body.index(m)] = call
                    F._helper = helper
                    return None
                # the helper has to be attached to the class: done through a marker handled below
                variant(i, e, 'twin+helper', 'block extracted into a helper method')


def gen_level_variants(src: str, class_names) -> List[Tuple[str, str, str]]:
    """breaking variants of class-level and module-level definitions: numeric constants changed, a class
    attribute bound to another name (PutQueue = SortedQueue -> list), priority constants swapped"""
    out = []
    base = ast.parse(src)
    sites = []
    for ci, node in enumerate(base.body):
        if isinstance(node, (ast.Assign, ast.AnnAssign)) and getattr(node, 'value', None) is not None:
            sites.append((None, ci, None))
        if isinstance(node, ast.ClassDef) and node.name in class_names:
            for si, st in enumerate(node.body):
                if isinstance(st, (ast.Assign, ast.AnnAssign)) and getattr(st, 'value', None) is not None:
                    sites.append((node.name, ci, si))
    for cname, ci, si in sites:
        tree = ast.parse(src)
        st = tree.body[ci] if si is None else tree.body[ci].body[si]
        v = st.value
        desc = None
        consts = [c for c in ast.walk(v) if isinstance(c, ast.Constant) and isinstance(c.value, (int, float)) and not isinstance(c.value, bool)]
        if consts:
            consts[0].value = consts[0].value + 1
            desc = 'constant in `%s` + 1' % ast.unparse(st).split('\n')[0][:60]
        elif isinstance(v, ast.Name) and v.id in ('list', 'SortedQueue'):
            v.id = 'SortedQueue' if v.id == 'list' else 'list'
            desc = 'class attribute rebound: %s' % ast.unparse(st)[:60]
        if desc is None:
            continue
        ast.fix_missing_locations(tree)
        try:
            new = ast.unparse(tree)
            compile(new, '<variant>', 'exec')
        except Exception:
            continue
        out.append(('break', '%s level: %s' % (cname or 'module', desc), new))
    return out


def _run_one(args):
    prop, rel, kind, desc, new_src = args
    try:
        from .rules import check_property
        ctx = Ctx(prop, 'thorough', overlay={rel: new_src})
        check_property(prop, ctx)
        known = load_known()
        new = [f for f in ctx.findings if f.ident() not in known]
        ctx.raise_deferred(bool(new))
        return (kind, desc, rel, 'violation' if new else 'silent', (new[0].rule + ': ' + new[0].message[:160]) if new else '')
    except AnalysisError as e:
        return (kind, desc, rel, 'analysis-error', str(e)[:160])
    except Exception as e:  # pragma: no cover
        return (kind, desc, rel, 'internal-error', '%s: %s' % (type(e).__name__, str(e)[:160]))


def run_for(prop: str, ctx: Ctx, max_variants: int = 1200) -> dict:
    """variants of every function the property's rules consulted on the clean tree"""
    seed = int(os.environ.get('VERIF_SEED', '0') or 0)
    targets: Dict[str, List[str]] = {}
    for f in ctx.primary:
        if f.module.relpath.startswith('onl/'):
            targets.setdefault(f.module.relpath, [])
            if f.qualname not in targets[f.module.relpath]:
                targets[f.module.relpath].append(f.qualname)
    jobs = []
    for rel, quals in sorted(targets.items()):
        src = ctx.repo.modules[[m for m in ctx.repo.modules if ctx.repo.modules[m].relpath == rel][0]].source
        # identity twin: the module re-printed by ast.unparse
        jobs.append((prop, rel, 'twin', '%s: module re-printed (identity)' % rel, ast.unparse(ast.parse(src))))
        for q in sorted(quals):
            for kind, desc, new in gen_variants(src, q):
                jobs.append((prop, rel, kind, desc, new))
        for kind, desc, new in gen_level_variants(src, {q.split('.')[0] for q in quals if '.' in q}):
            jobs.append((prop, rel, kind, desc, new))
    if len(jobs) > max_variants:
        rnd = random.Random(seed)
        twins = [j for j in jobs if j[2] == 'twin']
        breaks = [j for j in jobs if j[2] == 'break']
        rnd.shuffle(twins)
        rnd.shuffle(breaks)
        jobs = twins[:max_variants // 3] + breaks[:max_variants - min(len(twins), max_variants // 3)]
    # stored corpora: seeded defects written against this property (must be reported) and
    # behaviour-preserving refactorings of files this property consults (must stay silent),
    # replayed in memory on the current sources
    corpus_jobs, skipped = _corpus_jobs(prop, ctx)
    results = []
    with ProcessPoolExecutor(max_workers=min(16, os.cpu_count() or 4)) as ex:
        for r in ex.map(_run_one, jobs, chunksize=4):
            results.append(r)
        corpus_results = list(ex.map(_run_overlay, corpus_jobs, chunksize=1))
    breaks = [r for r in results if r[0] == 'break']
    twins = [r for r in results if r[0] == 'twin']
    killed = [r for r in breaks if r[3] in ('violation', 'analysis-error')]
    survivors = [r for r in breaks if r[3] == 'silent']
    twin_alarms = [r for r in twins if r[3] != 'silent']
    for r in twin_alarms:
        print('SELFTEST-GAP twin raised %s: %s [%s] %s' % (r[3], r[1], r[2], r[4]))
    for r in survivors[:400]:
        print('SELFTEST-NOTE surviving variant (possibly equivalent): %s [%s]' % (r[1], r[2]))
    for r in results:
        if r[3] == 'internal-error':
            print('SELFTEST-GAP internal error on variant: %s [%s] %s' % (r[1], r[2], r[4]))
    stats = {
        'variants': len(results), 'breaking': len(breaks), 'killed': len(killed),
        'killed_by_violation': len([r for r in breaks if r[3] == 'violation']),
        'killed_by_analysis_error': len([r for r in breaks if r[3] == 'analysis-error']),
        'survivors': len(survivors), 'twins': len(twins), 'twins_silent': len(twins) - len(twin_alarms),
        'twin_alarms': [r[1] for r in twin_alarms][:50],
        'survivor_sample': [r[1] for r in survivors][:60],
        'functions_mutated': sum(len(v) for v in targets.values()),
    }
    seeds = [r for r in corpus_results if r[0] == 'seed']
    refacs = [r for r in corpus_results if r[0] == 'refactoring']
    import json as _json
    from .core import VERIF as _V
    known_miss = set()
    for r in seeds:
        if r[2] == 'silent':
            try:
                if _json.load(open(os.path.join(_V, 'seeded', r[1], 'meta.json'))).get('known_miss'):
                    known_miss.add(r[1])
            except Exception:
                pass
            print('%s stored seeded defect %s is not reported by the %s check' % (
                'SELFTEST-NOTE known miss (beyond the method, recorded):' if r[1] in known_miss else 'SELFTEST-GAP', r[1], prop))
    known_lim = set()
    for r in refacs:
        try:
            if _json.load(open(os.path.join(_V, 'refactorings', r[1], 'meta.json'))).get('known_limitation'):
                known_lim.add(r[1])
        except Exception:
            pass
        if r[2] != 'silent':
            print('%s stored behaviour-preserving refactoring %s raises %s: %s' % (
                'SELFTEST-NOTE known limitation:' if r[1] in known_lim else 'SELFTEST-GAP', r[1], r[2], r[3]))
    stats.update({
        'seeded_defects_replayed': len(seeds), 'seeded_defects_reported': len([r for r in seeds if r[2] != 'silent']),
        'refactorings_replayed': len(refacs), 'refactorings_silent': len([r for r in refacs if r[2] == 'silent']),
        'refactorings_known_limitation': sorted(known_lim & set(r[1] for r in refacs if r[2] != 'silent')),
        'seeded_defects_known_miss': sorted(known_miss),
        'corpus_patches_not_applicable_to_current_tree': skipped,
    })
    print('selftest %s: %d breaking variants, %d flagged (%d by violation), %d survivors; %d twins, %d silent; '
          '%d stored seeds, %d reported; %d stored refactorings, %d silent' % (
              prop, len(breaks), len(killed), stats['killed_by_violation'], len(survivors), len(twins), stats['twins_silent'],
              len(seeds), stats['seeded_defects_reported'], len(refacs), stats['refactorings_silent']))
    return stats


def _corpus_jobs(prop, ctx):
    import glob
    import json
    from . import patching
    from .core import VERIF
    jobs, skipped = [], 0
    srcs = {m.relpath: m.source for m in ctx.repo.modules.values()}
    for kind, pattern in (('seed', 'seeded/*'), ('refactoring', 'refactorings/*')):
        for d in sorted(glob.glob(os.path.join(VERIF, pattern))):
            pf, mf = os.path.join(d, 'patch.diff'), os.path.join(d, 'meta.json')
            if not (os.path.exists(pf) and os.path.exists(mf)):
                continue
            meta = json.load(open(mf))
            diff = open(pf).read()
            files = [p for p, _ in patching.parse(diff)]
            if kind == 'seed' and meta.get('breaks') != prop:
                continue
            if kind == 'refactoring' and not any(f in ctx.consulted for f in files):
                continue
            try:
                overlay = patching.apply({f: srcs[f] for f in files if f in srcs}, diff)
            except Exception:
                skipped += 1
                continue
            jobs.append((prop, kind, os.path.basename(d), overlay))
    return jobs, skipped


def _run_overlay(args):
    prop, kind, ident, overlay = args
    try:
        from .rules import check_property
        ctx = Ctx(prop, 'thorough', overlay=overlay)
        check_property(prop, ctx)
        known = load_known()
        new = [f for f in ctx.findings if f.ident() not in known]
        ctx.raise_deferred(bool(new))
        return (kind, ident, 'violation' if new else 'silent', (new[0].rule + ': ' + new[0].message[:200]) if new else '')
    except AnalysisError as e:
        return (kind, ident, 'analysis-error', str(e)[:200])
    except Exception as e:  # pragma: no cover
        return (kind, ident, 'internal-error', '%s: %s' % (type(e).__name__, str(e)[:200]))
