"""Thorough tier: checker self-validation on scratch variants (filled in below)."""


def run_for(prop: str) -> int:
    return 0
