from onl.sim import Environment
def prog(env, log):
    ev = env.event()
    def p():
        yield env.timeout(1); v = yield ev; log.append(('p resumed', env.now, v))
    def q():
        yield env.timeout(2); ev.succeed('x'); log.append(('q', env.now))
    env.process(p()); env.process(q())
    return ev
env=Environment(); log=[]; ev=prog(env,log); env.run(); print('single', log)
env=Environment(); log=[]; ev=prog(env,log); r=env.run(until=ev); print('ret',r); env.run(); print('split', log)
# failing until-event with later waiters
def prog2(env, log):
    ev = env.event()
    def p():
        yield env.timeout(1)
        try:
            yield ev
        except ValueError as e: log.append(('p caught', env.now))
    def q():
        yield env.timeout(2); ev.fail(ValueError('boom'))
    env.process(p()); env.process(q()); return ev
env=Environment(); log=[]; ev=prog2(env,log); env.run(); print('single2', log)
env=Environment(); log=[]; ev=prog2(env,log)
try: env.run(until=ev)
except Exception as e: print('raised', type(e).__name__)
env.run(); print('split2', log)
# until=number at instants coinciding with due events
def prog3(env, log):
    def p(n):
        for i in range(3):
            yield env.timeout(1); log.append((n, env.now))
    env.process(p('a')); env.process(p('b'))
env=Environment(); log=[]; prog3(env,log); env.run(); print(log)
env=Environment(); log=[]; prog3(env,log); env.run(until=1); print(env.now, log); env.run(until=2); env.step(); env.run(); print(log)
