from onl.sim import Environment, PriorityItem
from onl.packet import Packet
from onl.netdev import TwoRateTokenBucket, Port, PortMonitor
from onl.netdev.red_port import REDPort
from onl.scheduler import RR
from onl.scheduler.monitor import Monitor
def t(name, f):
    try: print(name, '->', f())
    except Exception as e: print(name, 'EXC', type(e).__name__, e)
class Null:
    def put(s,p): pass
def f5():
    env=Environment(); tb=TwoRateTokenBucket(env,8000,1000,16000,100); tb.out=Null()
    # bypass the broken put(): hand the run loop the shape it expects
    tb.store.put(PriorityItem(0,Packet(0,200,1))); tb.store.put(PriorityItem(0,Packet(0,50,2)))
    env.run(until=10); return tb.packets_sent
t('F5 assert peak', f5)
def f9(incl):
    env=Environment(); p=Port(env,8000,10**9,True,'p'); p.out=Null()
    m=PortMonitor(env,p,lambda:0.05,pkt_in_service_included=incl); env.process(m.run())
    for i in range(3): p.put(Packet(0,100,i))
    env.run(until=0.06); return m.sizes, m.sizes_byte
t('F9 portmonitor incl', lambda: f9(True)); t('F9 portmonitor excl', lambda: f9(False))
def f10(incl):
    env=Environment(); s=RR(env,8000,[0]); s.out=Null()
    m=Monitor(env,s,lambda:0.05,service_included=incl)
    for i in range(3): s.put(Packet(0,100,i,flow_id=0))
    env.run(until=0.06); return dict(m.sizes), dict(m.byte_sizes)
t('F10 monitor incl', lambda: f10(True)); t('F10 monitor excl', lambda: f10(False))
def f25():
    env=Environment(); p=REDPort(env,8000,10,5,0.5,'red',100); pk=Packet(0,100,1); p.put(pk); return pk.perhop_time
t('F25 red stamp', f25)
