from onl.sim import Environment
from onl.packet import Packet, TCPPacketGenerator, TCPReno, Flow
from onl.netdev import Splitter, Port
from onl.topo import FatTree
def t(name, f):
    try: print(name, '->', f())
    except Exception as e: print(name, 'EXC', type(e).__name__, e)
class Null:
    def put(s,p): pass
def mk():
    env=Environment(); flow=Flow(0,'a','b',start_time=0,finish_time=1000,size=512*100)
    s=TCPPacketGenerator(env,flow,TCPReno(),rtt_estimate=0.5); s.out=Null(); env.run(until=0.01); return env,s
def ack(no,pid=0):
    a=Packet(0,40,pid,flow_id=10000); a.ack=no; return a
def one_dup():
    env,s=mk(); log=[s.congestion_control.cwnd]
    s.put(ack(512,0)); log.append(s.congestion_control.cwnd)
    s.put(ack(512,512)); log.append(('dup',s.congestion_control.cwnd))
    s.put(ack(1024,512)); log.append(('new',s.congestion_control.cwnd)); return log
t('one dupack then new ack', one_dup)
def dup_unsent():
    env,s=mk()
    s.put(ack(512,0))
    env.run(until=0.02)
    hi=s.next_seq
    for i in range(0,hi,512): s.put(ack(i+512,i)) if i>0 else None
    # now everything acked; duplicates of final ack
    for _ in range(3): s.put(ack(s.last_ack, 0))
    return s.last_ack, s.next_seq
t('3 dupacks for unsent seq', dup_unsent)
def split_alias():
    env=Environment(); sp=Splitter()
    class R:
        def __init__(s): s.got=[]
        def put(s,p): s.got.append(p)
    a=R(); p2=Port(env,0,None,False,'hopB'); b=R(); p2.out=b
    sp.out1=a; sp.out2=R()
    pk=Packet(0,100,1); sp.put(pk)
    c=sp.out2.got[0]; c.perhop_time['x']=1; c.priorities[0]=5
    return pk.perhop_time, pk.priorities, c is pk
t('splitter alias', split_alias)
def ft(k):
    f=FatTree(k); g=f.topo
    import collections
    deg=collections.Counter(g.degree(n) for n in g.nodes if g.nodes[n]['type']=='switch')
    lay=collections.Counter(g.nodes[n]['layer'] for n in g.nodes)
    return dict(deg), dict(lay)
t('ft4', lambda: ft(4)); t('ft2', lambda: ft(2)); t('ft6', lambda: ft(6))
