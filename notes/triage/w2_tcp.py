from onl.sim import Environment
from onl.packet import Packet, TCPSink, TCPPacketGenerator, TCPReno, TCPCubic, Flow
from onl.netdev import Wire
def t(name, f):
    try: print(name, '->', f())
    except Exception as e:
        import traceback; print(name, 'EXC', type(e).__name__, e)
class Rec:
    def __init__(s): s.log=[]
    def put(s,p): s.log.append(p.ack)
def sink(seq):
    env=Environment(); s=TCPSink(env); r=Rec(); s.out=r
    for pid in seq: s.put(Packet(0,512,pid,flow_id=0))
    return r.log
t('sink inorder', lambda: sink([0,512,1024]))
t('sink dup', lambda: sink([0,512,0]))
t('sink first missing', lambda: sink([512,1024,0]))
t('sink gap', lambda: sink([0,1024,512]))
def tcp(loss_idx, cc):
    env=Environment()
    flow=Flow(0,'a','b',start_time=0,finish_time=1000,size=512*8)
    snd=TCPPacketGenerator(env,flow,cc,rtt_estimate=0.5)
    class Drop:
        def __init__(s,out): s.out=out; s.n=0; s.sent=[]
        def put(s,p):
            s.n+=1; s.sent.append((env.now,p.packet_id))
            if s.n in loss_idx: return
            s.out.put(p)
    w1=Wire(env,lambda:0.1); w2=Wire(env,lambda:0.1); rcv=TCPSink(env)
    d=Drop(w1); snd.out=d; w1.out=rcv; rcv.out=w2; w2.out=snd
    env.run(until=500)
    return snd.last_ack, snd.next_seq, rcv.recv_buffer, d.sent
t('tcp noloss reno', lambda: tcp(set(), TCPReno()))
t('tcp loss#2 reno', lambda: tcp({2}, TCPReno()))
t('tcp loss#1 reno', lambda: tcp({1}, TCPReno()))
