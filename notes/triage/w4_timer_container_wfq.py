from onl.sim import Environment, Container
from onl.utils import Timer
from onl.packet import Packet
from onl.netdev import TwoRateTokenBucket
from onl.scheduler import WFQ
def t(name, f):
    try: print(name, '->', f())
    except Exception as e: print(name, 'EXC', type(e).__name__, e)
def timer_restart_same_instant_after_expiry():
    env=Environment(); log=[]
    tm=Timer(env,5,lambda: log.append(env.now))
    def p():
        yield env.timeout(5); tm.restart(2)
    env.process(p()); env.run(); return log
t('restart same instant after expiry', timer_restart_same_instant_after_expiry)
def cont_cancel():
    env=Environment(); c=Container(env,capacity=10,init=5); log=[]
    def a():
        r=c.put(8)
        yield env.timeout(1); r.cancel(); log.append(('cancel',env.now))
    def b():
        yield c.put(2); log.append(('put2 granted',env.now))
    env.process(a()); env.process(b()); env.run(until=10); return log, c.level, len(c.put_queue)
t('container cancel head', cont_cancel)
class Rec:
    def __init__(s,env): s.env=env; s.log=[]
    def put(s,p): s.log.append((s.env.now,p.flow_id,p.packet_id,p.color))
def trtb():
    env=Environment(); tb=TwoRateTokenBucket(env,8000,1000,16000,1000); r=Rec(env); tb.out=r
    tb.put(Packet(0,100,1)); env.run(until=10); return r.log
t('two rate', trtb)
def wfq4():
    env=Environment(); s=WFQ(env,8000,{0:1,1:1,2:1,3:1,4:1}); r=Rec(env); s.out=r
    s.put(Packet(0,100,99,flow_id=4))
    for f in range(4): s.put(Packet(0,100,f,flow_id=f))
    env.run(); return [x[1] for x in r.log]
t('wfq equal stamps', wfq4)
def wfq_f2c():
    env=Environment(); s=WFQ(env,8000,{0:1,1:1}, flow2class=lambda f:f%2); r=Rec(env); s.out=r
    for f in (2,3,4): s.put(Packet(0,100,f,flow_id=f))
    env.run(); return [x[1] for x in r.log]
t('wfq flow2class', wfq_f2c)
