import traceback
from onl.sim import Environment
from onl.packet import Packet, PacketSink
from onl.netdev import Port, Hub, TokenBucket
from onl.netdev.demux import FIBDemux, FlowDemux
from onl.scheduler import SP, VC, WFQ, DRR, RR, WRR
from onl.scheduler.monitor import Monitor
from onl.utils import Timer

class Rec:
    def __init__(self, env): self.env=env; self.log=[]
    def put(self,p): self.log.append((self.env.now,p.flow_id,p.packet_id))

def t(name, f):
    try:
        print(name, '->', f())
    except Exception as e:
        print(name, 'EXC', type(e).__name__, e)

def port_none():
    env=Environment(); p=Port(env,8000,None,True,'p'); r=Rec(env); p.out=r
    p.put(Packet(0,100,1)); env.run(); return r.log, p.byte_size
t('port qlimit None bytes', port_none)
def port_lim():
    env=Environment(); p=Port(env,8000,150,True,'p'); r=Rec(env); p.out=r
    for i in range(5): p.put(Packet(0,100,i))
    env.run(); return r.log, p.packets_dropped, p.byte_size
t('port qlimit 150B', port_lim)
def port_rate0():
    env=Environment(); p=Port(env,0,1000,True,'p'); r=Rec(env); p.out=r
    for i in range(5): p.put(Packet(0,100,i))
    env.run(); return r.log, p.packets_dropped, p.byte_size
t('port rate0', port_rate0)
def port_stamp():
    env=Environment(); p=Port(env,8000,1000,True,'p'); r=Rec(env); p.out=r
    pk=Packet(0,100,1); p.put(pk); return pk.perhop_time
t('port stamp', port_stamp)
def fib_empty():
    env=Environment(); r=Rec(env); d=FIBDemux(outs=[r],fib={},default_out=r); d.put(Packet(0,1,1,flow_id=3)); return r.log
t('fib empty', fib_empty)
def flowdemux_neg():
    env=Environment(); r=Rec(env); r2=Rec(env); d=FlowDemux([r],r2); d.put(Packet(0,1,1,flow_id=-1)); return r.log, r2.log
t('flowdemux neg', flowdemux_neg)
def hub_default():
    env=Environment()
    class E:
        def __init__(s,i): s.element_id=i; s.out=None; s.got=[]
        def put(s,p): s.got.append(p.src)
    es=[E('a'),E('b')]
    h=Hub(env,es); h.put(Packet(0,1,1,src='a')); return [e.got for e in es]
t('hub default ports', hub_default)
def sp():
    env=Environment(); s=SP(env,8000,{0:1,1:10}); r=Rec(env); s.out=r
    for i in range(3): s.put(Packet(0,100,i,flow_id=0))
    for i in range(3): s.put(Packet(0,100,10+i,flow_id=1))
    env.run(); return r.log
t('SP', sp)
def vc():
    env=Environment(); s=VC(env,8000,{0:1,1:1}); r=Rec(env); s.out=r
    s.put(Packet(0,100,0,flow_id=0)); s.put(Packet(0,100,1,flow_id=1))
    env.run(); return r.log
t('VC', vc)
def wfq():
    env=Environment(); s=WFQ(env,8000,{0:1,1:2}); r=Rec(env); s.out=r
    for i in range(3): s.put(Packet(0,100,i,flow_id=0))
    for i in range(3): s.put(Packet(0,100,10+i,flow_id=1))
    env.run(); return r.log
t('WFQ', wfq)
def drr():
    env=Environment(); s=DRR(env,8000,{0:1,1:2}); r=Rec(env); s.out=r
    for i in range(3): s.put(Packet(0,1000,i,flow_id=0))
    for i in range(3): s.put(Packet(0,1000,10+i,flow_id=1))
    env.run(); return r.log
t('DRR', drr)
def drr_f2c():
    env=Environment(); s=DRR(env,8000,{0:1,1:2}, flow2class=lambda f: f%2); r=Rec(env); s.out=r
    for i in range(3): s.put(Packet(0,1000,i,flow_id=2))
    for i in range(3): s.put(Packet(0,1000,10+i,flow_id=1))
    env.run(); return r.log
t('DRR f2c', drr_f2c)
def rr():
    env=Environment(); s=RR(env,8000,[0,1]); r=Rec(env); s.out=r
    for i in range(3): s.put(Packet(0,1000,i,flow_id=0))
    for i in range(3): s.put(Packet(0,1000,10+i,flow_id=1))
    env.run(); return r.log
t('RR', rr)
def wrr():
    env=Environment(); s=WRR(env,8000,{0:1,1:2}); r=Rec(env); s.out=r
    for i in range(3): s.put(Packet(0,1000,i,flow_id=0))
    for i in range(3): s.put(Packet(0,1000,10+i,flow_id=1))
    env.run(); return r.log
t('WRR', wrr)
def timer_scalar():
    env=Environment(); log=[]
    Timer(env,5,lambda x: log.append((env.now,x)), args=7); env.run(); return log
t('timer scalar', timer_scalar)
def timer_restart_cb():
    env=Environment(); log=[]
    def cb():
        log.append(env.now)
        if len(log)<3: tm.restart(2)
    tm=Timer(env,5,cb); env.run(); return log
t('timer restart in cb', timer_restart_cb)
def timer_restart_after():
    env=Environment(); log=[]
    tm=Timer(env,5,lambda: log.append(env.now))
    def p():
        yield env.timeout(7); tm.restart(2)
    env.process(p()); env.run(); return log
t('timer restart after expiry', timer_restart_after)
def timer_restart_at_expiry():
    env=Environment(); log=[]
    def p():
        yield env.timeout(5); tm.restart(2)
    env.process(p())
    tm=Timer(env,5,lambda: log.append(env.now))
    env.run(); return log
t('timer restart at expiry instant', timer_restart_at_expiry)
def timer_stop_restart():
    env=Environment(); log=[]
    tm=Timer(env,5,lambda: log.append(env.now))
    def p():
        yield env.timeout(1); tm.stop(); yield env.timeout(1); tm.restart(2)
    env.process(p()); env.run(); return log
t('timer stop then restart', timer_stop_restart)
