from onl.sim import Environment
from onl.packet import Packet
from onl.netdev import TwoRateTokenBucket
class Rec:
    def __init__(s,env): s.env=env; s.log=[]
    def put(s,p): s.log.append((round(s.env.now,4),p.packet_id,p.color))
env=Environment(); tb=TwoRateTokenBucket(env,8000,1000,16000,100); r=Rec(env); tb.out=r
tb.put(Packet(0,200,1)); tb.put(Packet(0,50,2)); tb.put(Packet(0,50,3))
env.run(until=10); print(r.log)
env=Environment(); tb=TwoRateTokenBucket(env,8000,100); r=Rec(env); tb.out=r
tb.put(Packet(0,200,1)); tb.put(Packet(0,50,2))
env.run(until=10); print(r.log)
