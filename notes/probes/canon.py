# design probe (not framework code): canonical terms, regions, table comparison
import ast, itertools
from fractions import Fraction

def cstr(n):
    """canonical string of a non-arithmetic subtree"""
    if isinstance(n, ast.Call):
        f = cstr(n.func); args = [show(to_poly(a)) if arith(a) else cstr(a) for a in n.args]
        if f in ('min', 'max'): args = sorted(args)
        return f + '(' + ','.join(args) + ')'
    if isinstance(n, ast.Attribute): return cstr(n.value) + '.' + n.attr
    if isinstance(n, ast.Name): return n.id
    if isinstance(n, ast.Subscript): return cstr(n.value) + '[' + (show(to_poly(n.slice)) if arith(n.slice) else cstr(n.slice)) + ']'
    if isinstance(n, ast.Constant): return repr(n.value)
    return ast.unparse(n)
def arith(n):
    return isinstance(n, (ast.BinOp, ast.UnaryOp)) or (isinstance(n, ast.Constant) and isinstance(n.value, (int, float)) and not isinstance(n.value, bool))
def pconst(c): return {(): Fraction(c)} if c else {}
def padd(a, b, k=1):
    r = dict(a)
    for m, c in b.items():
        r[m] = r.get(m, 0) + k * c
        if r[m] == 0: del r[m]
    return r
def pmul(a, b):
    r = {}
    for m1, c1 in a.items():
        for m2, c2 in b.items():
            d = dict(m1)
            for v, e in m2: d[v] = d.get(v, 0) + e
            m = tuple(sorted((v, e) for v, e in d.items() if e))
            r[m] = r.get(m, 0) + c1 * c2
            if r[m] == 0: del r[m]
    return r
def to_poly(n):
    if isinstance(n, ast.Constant) and isinstance(n.value, (int, float)) and not isinstance(n.value, bool):
        return pconst(Fraction(str(n.value)))
    if isinstance(n, ast.BinOp):
        if isinstance(n.op, ast.Add): return padd(to_poly(n.left), to_poly(n.right))
        if isinstance(n.op, ast.Sub): return padd(to_poly(n.left), to_poly(n.right), -1)
        if isinstance(n.op, ast.Mult): return pmul(to_poly(n.left), to_poly(n.right))
        if isinstance(n.op, ast.Div):
            r = to_poly(n.right)
            if list(r.keys()) == [()]: return pmul(to_poly(n.left), pconst(1 / r[()]))
            return pmul(to_poly(n.left), {((f'1/({show(r)})', 1),): Fraction(1)})
        if isinstance(n.op, ast.Pow) and isinstance(n.right, ast.Constant) and isinstance(n.right.value, int) and n.right.value >= 0:
            r = pconst(1)
            for _ in range(n.right.value): r = pmul(r, to_poly(n.left))
            return r
    if isinstance(n, ast.UnaryOp) and isinstance(n.op, ast.USub): return padd({}, to_poly(n.operand), -1)
    return {((cstr(n), 1),): Fraction(1)}
def show(p):
    if not p: return '0'
    out = []
    for m, c in sorted(p.items()):
        mon = '*'.join(v if e == 1 else f'{v}^{e}' for v, e in m)
        out.append((f'{c}*' if (c != 1 or not mon) and mon else (str(c) if not mon else '')) + mon)
    return ' + '.join(out)
def atoms_in_poly(p): return {v for m in p for v, _ in m}

FLIP = {'<': '>', '>': '<', '<=': '>=', '>=': '<=', '==': '==', '!=': '!='}
OPS = {ast.Lt: '<', ast.LtE: '<=', ast.Gt: '>', ast.GtE: '>=', ast.Eq: '==', ast.NotEq: '!='}
def cmp_atom(l, op, r):
    p = padd(to_poly(l), to_poly(r), -1)
    if p:
        lead = sorted(p.items())[-1][1]
        if lead < 0: p = {m: -c for m, c in p.items()}; op = FLIP[op]
    return ('cmp', show(p), op, frozenset(atoms_in_poly(p)))
def cond(n):
    """boolean structure over atoms"""
    if isinstance(n, ast.BoolOp):
        return ('and' if isinstance(n.op, ast.And) else 'or', [cond(v) for v in n.values])
    if isinstance(n, ast.UnaryOp) and isinstance(n.op, ast.Not): return ('not', cond(n.operand))
    if isinstance(n, ast.Compare) and len(n.ops) == 1:
        op, r = n.ops[0], n.comparators[0]
        if isinstance(op, (ast.Is, ast.IsNot)) and isinstance(r, ast.Constant) and r.value is None:
            a = ('isnone', cstr(n.left)); return a if isinstance(op, ast.Is) else ('not', a)
        if type(op) in OPS: return cmp_atom(n.left, OPS[type(op)], r)
        if isinstance(op, (ast.In, ast.NotIn)):
            a = ('opaque', cstr(n.left) + ' in ' + cstr(r)); return a if isinstance(op, ast.In) else ('not', a)
    if isinstance(n, ast.Compare):   # chained
        parts = []; l = n.left
        for op, r in zip(n.ops, n.comparators): parts.append(cmp_atom(l, OPS[type(op)], r)); l = r
        return ('and', parts)
    if isinstance(n, ast.Constant): return ('const', bool(n.value))
    return ('truthy', cstr(n))
def leaves(c, acc):
    if c[0] in ('and', 'or'): [leaves(x, acc) for x in c[1]]
    elif c[0] == 'not': leaves(c[1], acc)
    elif c[0] != 'const': acc.add(c)
    return acc
class Undefined(Exception): pass
def evalc(c, cell):
    k = c[0]
    if k == 'and':
        for x in c[1]:
            if not evalc(x, cell): return False
        return True
    if k == 'or':
        for x in c[1]:
            if evalc(x, cell): return True
        return False
    if k == 'not': return not evalc(c[1], cell)
    if k == 'const': return c[1]
    if k == 'cmp':
        for a in c[3]:
            if cell.get(('opt', a)) == 'None': raise Undefined(f'{a} is None in {c[1]} {c[2]} 0')
        s = cell[('sign', c[1])]
        return {'<': s < 0, '<=': s <= 0, '>': s > 0, '>=': s >= 0, '==': s == 0, '!=': s != 0}[c[2]]
    if k == 'isnone': return cell[('opt', c[1])] == 'None'
    if k == 'truthy': return cell[('opt', c[1])] == 'truthy'
    if k == 'opaque': return cell[('bit', c[1])]
def dims(all_leaves):
    d = {}
    for c in all_leaves:
        if c[0] == 'cmp': d[('sign', c[1])] = (-1, 0, 1)
        elif c[0] in ('isnone', 'truthy'): d[('opt', c[1])] = ('None', 'falsy', 'truthy')
        elif c[0] == 'opaque': d[('bit', c[1])] = (False, True)
    return d
def cells(d):
    keys = sorted(d)
    for vals in itertools.product(*[d[k] for k in keys]): yield dict(zip(keys, vals))
