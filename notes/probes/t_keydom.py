# design probe: key-domain unification for scheduler dictionaries
import ast, sys
repo = sys.argv[1] if len(sys.argv) > 1 else '/repo'
files = ['base', 'sp', 'wfq', 'virtual_clock', 'drr', 'rr', 'wrr']
classes = {}
for f in files:
    t = ast.parse(open(f'{repo}/onl/scheduler/{f}.py').read())
    for c in t.body:
        if isinstance(c, ast.ClassDef): classes[c.name] = c
def mro(name):
    out = []
    while name in classes:
        out.append(name); b = classes[name].bases
        name = b[0].id if b and isinstance(b[0], ast.Name) else None
    return out
class UF:
    def __init__(s): s.p = {}
    def find(s, x):
        s.p.setdefault(x, x)
        while s.p[x] != x: s.p[x] = s.p[s.p[x]]; x = s.p[x]
        return x
    def union(s, a, b): s.p[s.find(a)] = s.find(b)
def selfattr(n):
    return n.attr if isinstance(n, ast.Attribute) and isinstance(n.value, ast.Name) and n.value.id == 'self' else None
def analyse(cname):
    uf = UF(); sites = {}
    methods = {}
    for k in reversed(mro(cname)):
        for m in classes[k].body:
            if isinstance(m, ast.FunctionDef): methods[m.name] = (k, m)
    accepts_f2c = any(a.arg == 'flow2class' for a in methods['__init__'][1].args.args)
    for mname, (owner, m) in methods.items():
        def node_of(e):
            """domain node for an index expression"""
            if isinstance(e, ast.Name): return ('var', owner, mname, e.id)
            if isinstance(e, ast.Attribute) and e.attr == 'flow_id': return 'FLOW'
            if isinstance(e, ast.Call) and selfattr(e.func) == 'flow2class': return 'CLASS'
            return None
        def keynode(d): return ('key', d)
        for n in ast.walk(m):
            if isinstance(n, ast.Assign) and len(n.targets) == 1 and isinstance(n.targets[0], ast.Name):
                a, b = node_of(n.targets[0]), node_of(n.value)
                if a and b: uf.union(a, b)
            if isinstance(n, ast.Subscript) and selfattr(n.value):
                k = node_of(n.slice)
                if k:
                    uf.union(keynode(selfattr(n.value)), k); sites.setdefault(selfattr(n.value), []).append(f'{owner}.{mname}:{n.lineno}')
            if isinstance(n, ast.Call) and isinstance(n.func, ast.Attribute) and n.func.attr in ('add', 'remove', 'discard', 'get') and selfattr(n.func.value) and n.args:
                k = node_of(n.args[0])
                if k: uf.union(keynode(selfattr(n.func.value)), k)
            if isinstance(n, ast.Compare) and isinstance(n.ops[0], (ast.In, ast.NotIn, ast.Eq)):
                r = n.comparators[0]
                if isinstance(n.ops[0], ast.Eq):
                    a, b = node_of(n.left), node_of(r)
                    if a and b: uf.union(a, b)
                elif selfattr(r):
                    k = node_of(n.left)
                    if k: uf.union(keynode(selfattr(r)), k)
            if isinstance(n, ast.For):
                it = n.iter; tgt = n.target
                # for k in self.T / self.T.keys();  for k, v in self.T.items();  for k, v in <local = self.T.items()>
                src = None
                if selfattr(it): src = selfattr(it)
                elif isinstance(it, ast.Call) and isinstance(it.func, ast.Attribute) and it.func.attr in ('items', 'keys') and selfattr(it.func.value): src = selfattr(it.func.value)
                elif isinstance(it, ast.Name):
                    for a in ast.walk(m):
                        if isinstance(a, ast.Assign) and isinstance(a.targets[0], ast.Name) and a.targets[0].id == it.id and isinstance(a.value, ast.Call) and isinstance(a.value.func, ast.Attribute) and selfattr(a.value.func.value):
                            src = selfattr(a.value.func.value)
                kv = tgt.elts[0] if isinstance(tgt, ast.Tuple) else tgt
                if src and isinstance(kv, ast.Name): uf.union(keynode(src), ('var', owner, mname, kv.id))
            # ctor tables: parameter -> self.T, and `for k, v in param.items()`
    # parameters stored into fields keep their key domain: self.weights = weights ; for class_id, w in weights.items()
    owner, init = methods['__init__']
    for n in ast.walk(init):
        if isinstance(n, ast.Assign) and selfattr(n.targets[0]) and isinstance(n.value, ast.Name):
            uf.union(('key', selfattr(n.targets[0])), ('param', n.value.id))
        if isinstance(n, ast.Assign) and selfattr(n.targets[0]) and isinstance(n.value, ast.Call) and isinstance(n.value.func, ast.Name) and n.value.func.id == 'sorted':
            a0 = n.value.args[0]
            if isinstance(a0, ast.Call) and isinstance(a0.func, ast.Attribute) and isinstance(a0.func.value, ast.Name):
                uf.union(('key', selfattr(n.targets[0])), ('param', a0.func.value.id))
        if isinstance(n, ast.For) and isinstance(n.iter, ast.Call) and isinstance(n.iter.func, ast.Attribute) and isinstance(n.iter.func.value, ast.Name):
            kv = n.target.elts[0] if isinstance(n.target, ast.Tuple) else n.target
            uf.union(('param', n.iter.func.value.id), ('var', owner, '__init__', kv.id))
    mixed = uf.find('FLOW') == uf.find('CLASS')
    dicts = sorted(k[1] for k in list(uf.p) if isinstance(k, tuple) and k[0] == 'key' and uf.find(k) in (uf.find('FLOW'), uf.find('CLASS')))
    return accepts_f2c, mixed, dicts, sites
for c in ['SP', 'WFQ', 'VC', 'DRR', 'RR', 'WRR']:
    f2c, mixed, dicts, sites = analyse(c)
    print(f'{c:4} flow2class={f2c!s:5} FLOW~CLASS unified={mixed!s:5} dicts in the seeded classes: {dicts}')
    if mixed:
        for d in dicts: print('      ', d, sites.get(d))
