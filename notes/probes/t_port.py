import ast, sys
from canon import *
from paths import *
repo = sys.argv[1] if len(sys.argv) > 1 else '/repo'
f = fn(repo + '/onl/netdev/port.py', 'Port', 'put')
P = paths(f.body)
roles = {"q": "self.qlimit", "held": "self.byte_size", "size": "packet.size", "n": "len(self.store.items)",
         "bytes": "self.limit_bytes", "eid": "self.element_id", "now": "self.env.now"}
def R(expr):
    t = ast.parse(expr, mode='eval').body
    env = {k: ast.parse(v, mode='eval').body for k, v in roles.items()}
    return ev(t, env)
ACCEPT = {('write', 'self.byte_size', term(R('held + size'))), ('call', 'self.store.put(packet)')}
DROP = {('write', 'self.packets_dropped', term(R('self.packets_dropped + 1')))}
rows = [(cond(R("q is None")), 'ACCEPT'), (cond(R("q and bytes and held + size > q")), 'DROP'),
        (cond(R("q and not bytes and n >= q - 1")), 'DROP'), (cond(R("q")), 'ACCEPT')]
stamp_rows = [(cond(R("eid is None")), False), (cond(R("eid")), True)]
IGN = lambda e: (e[0] == 'call' and e[1].startswith('print(')) or e[0] == 'return'
def classify(effs):
    es = {e for e in effs if not IGN(e)}
    core = es - {('write', 'self.packets_received', term(R('self.packets_received + 1')))}
    stamp = {e for e in core if e[1].startswith('packet.perhop_time')}
    core -= stamp
    return ('ACCEPT' if core == ACCEPT else 'DROP' if core == DROP else f'OTHER{sorted(core)}'), bool(stamp)
L = set()
for c, _, _ in P:
    for a, _ in c: leaves(a, L)
for c, _ in rows + stamp_rows: leaves(c, L)
L = {l for l in L if not (l[0] == 'truthy' and l[1] == 'self.debug')}
D = dims(L); D[('opt', 'self.debug')] = ('falsy',)
n = bad = 0
seen = set()
for cell in cells(D):
    n += 1
    spec = next((o for c, o in rows if evalc(c, cell)), None)
    sstamp = next((o for c, o in stamp_rows if evalc(c, cell)), None)
    try:
        code = [p for p in P if all(evalc(a, cell) == pol for a, pol in p[0])]
        assert len(code) == 1
        got, gstamp = classify(code[0][1])
    except Undefined as u:
        got, gstamp = f'RAISES({u})', None
    for what, s_, g_ in (('disposition', spec, got), ('stamp', sstamp, gstamp)):
        if s_ is not None and s_ != g_:
            key = (what, s_, g_ if what == 'stamp' else got[:12])
            bad += 1
            if key not in seen:
                seen.add(key); print('MISMATCH', what, 'spec', s_, 'code', g_, '\n   cell', {k[1]: v for k, v in cell.items() if k[1] != 'self.debug'})
print(f'{len(P)} paths, {len(D)} dimensions, {n} cells, {bad} mismatching (cell,aspect) pairs, {len(seen)} distinct kinds')
