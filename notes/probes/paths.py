# design probe: path summaries with store forwarding (extends the first probe)
import ast, copy
from canon import cond, cstr, to_poly, show, arith
class Subst(ast.NodeTransformer):
    def __init__(s, env): s.env = env
    def visit_Name(s, n):
        return copy.deepcopy(s.env[n.id]) if isinstance(n.ctx, ast.Load) and n.id in s.env else n
    def visit_Attribute(s, n):
        k = ast.unparse(n)
        if isinstance(n.ctx, ast.Load) and k in s.env: return copy.deepcopy(s.env[k])
        return s.generic_visit(n)
def ev(e, env): return Subst(env).visit(copy.deepcopy(e))
def term(e): return show(to_poly(e)) if arith(e) else cstr(e)
def paths(stmts, env=None, conds=(), effs=(), out=None):
    env = {} if env is None else env; out = [] if out is None else out
    if not stmts: out.append((list(conds), list(effs), 'fall')); return out
    s, rest = stmts[0], stmts[1:]
    if isinstance(s, ast.If):
        c = cond(ev(s.test, env))
        paths(s.body + rest, dict(env), conds + ((c, True),), effs, out)
        paths(s.orelse + rest, dict(env), conds + ((c, False),), effs, out)
    elif isinstance(s, ast.Return):
        out.append((list(conds), list(effs) + [('return', term(ev(s.value, env)) if s.value else None)], 'ret'))
    elif isinstance(s, ast.Raise):
        out.append((list(conds), list(effs) + [('raise', cstr(s.exc.func) if isinstance(s.exc, ast.Call) else cstr(s.exc))], 'raise'))
    elif isinstance(s, (ast.Assign, ast.AnnAssign)):
        tgt = s.targets[0] if isinstance(s, ast.Assign) else s.target
        v = ev(s.value, env); k = ast.unparse(tgt); env = dict(env); env[k] = v
        ne = effs + ((('write', cstr(ev(tgt, {kk: vv for kk, vv in env.items() if kk != k})), term(v)),) if not isinstance(tgt, ast.Name) else ())
        paths(rest, env, conds, ne, out)
    elif isinstance(s, ast.AugAssign):
        k = ast.unparse(s.target); tl = ast.parse(k, mode='eval').body
        v = ev(ast.BinOp(tl, s.op, s.value), env); env = dict(env); env[k] = v
        paths(rest, env, conds, effs + (('write', cstr(s.target), term(v)),), out)
    elif isinstance(s, ast.Expr):
        if isinstance(s.value, ast.Constant): return paths(rest, env, conds, effs, out)
        paths(rest, env, conds, effs + (('call', cstr(ev(s.value, env))),), out)
    elif isinstance(s, ast.Assert):
        paths(rest, env, conds, effs + (('assert', ast.unparse(s.test)),), out)
    else:
        paths(rest, env, conds, effs + (('other', type(s).__name__),), out)
    return out
def fn(path, cls, name):
    t = ast.parse(open(path).read())
    for c in ast.walk(t):
        if isinstance(c, ast.ClassDef) and c.name == cls:
            for f in c.body:
                if isinstance(f, ast.FunctionDef) and f.name == name: return f
