#!/venv/bin/python
"""Behaviour-preserving refactorings (from sub-agents) must leave every check silent.
usage: refactest.py [--dir /tmp/refac|/verif/refactorings] [ids like G05/r1 ...]
For each: scratch worktree at /repo HEAD; equiv.py output before == after (re-validated here);
then all 20 checks with ONLSA_REPO=<scratch>; any exit != 0 is a false alarm of the machinery."""
import glob, json, os, subprocess, sys
args = sys.argv[1:]
base = '/tmp/refac'
if '--dir' in args:
    i = args.index('--dir'); base = args[i + 1]; del args[i:i + 2]
WT = os.environ.get('SEEDTEST_WT', '/tmp/wt/refactest')

def sh(cmd):
    return subprocess.run(cmd, shell=True, capture_output=True, text=True)

if not os.path.isdir(WT):
    assert sh('git -C /repo worktree add -q --detach %s HEAD' % WT).returncode == 0
sh('git -C %s checkout -q --detach %s' % (WT, sh('git -C /repo rev-parse HEAD').stdout.strip()))
ids = args or sorted(os.path.relpath(os.path.dirname(p), base) for p in glob.glob(base + '/*/*/patch.diff')) \
    or sorted(os.path.relpath(os.path.dirname(p), base) for p in glob.glob(base + '/*/patch.diff'))
props = sorted(c['property_id'] for c in json.load(open('/verif/MANIFEST.json'))['checks'])
alarms = 0
for rid in ids:
    d = os.path.join(base, rid)
    sh('git -C %s checkout -- . && git -C %s clean -fdq' % (WT, WT))
    eq = os.path.join(d, 'equiv.py')
    before = sh('cd %s && PYTHONPATH=%s timeout 600 /venv/bin/python %s' % (WT, WT, eq))
    ap = sh('git -C %s apply %s/patch.diff' % (WT, d))
    if ap.returncode != 0:
        print('%-8s PATCH DOES NOT APPLY' % rid); continue
    after = sh('cd %s && PYTHONPATH=%s timeout 600 /venv/bin/python %s' % (WT, WT, eq))
    same = before.stdout == after.stdout and before.returncode == after.returncode and len(before.stdout) > 0
    res = {}
    for p in props:
        r = sh('cd /verif && ONLSA_REPO=%s ONLSA_EVIDENCE_DIR=/tmp/onlsa_ev_refac /venv/bin/python -m onlsa check %s' % (WT, p))
        if r.returncode != 0:
            first = [l for l in r.stdout.splitlines() if l.startswith('onl/') or 'ANALYSIS-ERROR' in l][:1]
            res[p] = (r.returncode, first[0][:230] if first else '')
    meta = json.load(open(os.path.join(d, 'meta.json'))) if os.path.exists(os.path.join(d, 'meta.json')) else {}
    print('%-8s equiv=%s alarms=%s :: %s' % (rid, 'same' if same else 'DIFFERENT(%d/%d)' % (len(before.stdout), len(after.stdout)),
                                            ','.join(res) or '-', (meta.get('summary') or '')[:100]), flush=True)
    for p, (rc, msg) in res.items():
        print('      %s rc=%d %s' % (p, rc, msg))
    alarms += 1 if (res and same) else 0
sh('git -C %s checkout -- . && git -C %s clean -fdq' % (WT, WT))
print('refactorings with a (false) alarm: %d of %d' % (alarms, len(ids)))
