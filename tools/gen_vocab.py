#!/venv/bin/python
"""Regenerate onlsa/vocab.json (class names, method names, private-name occurrence profiles) from /repo's tree.
Run after every batch of `fix:` commits; the file is part of the confirmed reference like the tables."""
import ast, json, os, sys
sys.path.insert(0, '/verif')
from onlsa import vocab
root = os.environ.get('ONLSA_REPO', '/repo')
trees = {}
for d, dirs, files in os.walk(os.path.join(root, 'onl')):
    dirs[:] = sorted(x for x in dirs if x != '__pycache__')
    for f in sorted(files):
        if f.endswith('.py'):
            p = os.path.join(d, f)
            trees[os.path.relpath(p, root)] = ast.parse(open(p).read())
snap = vocab.snapshot(trees)
json.dump(snap, open(vocab.VOCAB_FILE, 'w'), indent=0, sort_keys=True)
print('classes %d, private names %d' % (len(snap['classes']), len(snap['private'])))
