#!/venv/bin/python
"""Confirm each sub-agent seed myself in a scratch worktree and file it under /verif/seeded/<id>/.
 - demo passes on the unmodified tree, fails with the patch
 - the pinned test suite passes with the patch (PYTHONPATH=<scratch>)
usage: validate_seeds.py [seed ids like C09/m1 ...]   (default: all under /tmp/seeds)"""
import glob, json, os, shutil, subprocess, sys
WT = '/tmp/wt/validate'
BASE = os.environ.get('SEED_BASE', '/tmp/seeds')
PREFIX = os.environ.get('SEED_PREFIX', '')
OUT = '/verif/seeded'

def sh(cmd, **kw):
    return subprocess.run(cmd, shell=True, capture_output=True, text=True, **kw)

if not os.path.isdir(WT):
    assert sh('git -C /repo worktree add -q --detach %s HEAD' % WT).returncode == 0
head = sh('git -C /repo rev-parse HEAD').stdout.strip()
sh('git -C %s checkout -q --detach %s' % (WT, head))
seeds = sys.argv[1:] or sorted(os.path.relpath(os.path.dirname(p), BASE) for p in glob.glob(BASE + '/*/*/patch.diff'))
env = 'cd %s && PYTHONPATH=%s' % (WT, WT)
for sd in seeds:
    d = os.path.join(BASE, sd)
    sh('git -C %s checkout -- . && git -C %s clean -fdq' % (WT, WT))
    r0 = sh('%s timeout 300 /venv/bin/python %s/demo.py' % (env, d))
    ap = sh('git -C %s apply %s/patch.diff' % (WT, d))
    if ap.returncode != 0:
        print(sd, 'PATCH FAILS TO APPLY'); continue
    r1 = sh('%s timeout 300 /venv/bin/python %s/demo.py' % (env, d))
    t = None
    for attempt in range(3):
        t = sh('%s /venv/bin/python -m pytest -q -p no:cacheprovider --timeout=900 2>&1 | tail -3' % env)
        if '119 passed' in t.stdout:
            break
    ok = r0.returncode == 0 and r1.returncode == 1 and '119 passed' in t.stdout
    print('%-8s clean-demo rc=%d  patched-demo rc=%d  suite: %s  => %s' % (sd, r0.returncode, r1.returncode, t.stdout.strip().splitlines()[-1] if t.stdout.strip() else '?', 'KEEP' if ok else 'REJECT'), flush=True)
    if ok:
        meta = json.load(open(os.path.join(d, 'meta.json')))
        sid = PREFIX + sd.replace('/', '-')
        od = os.path.join(OUT, sid)
        os.makedirs(od, exist_ok=True)
        shutil.copy(os.path.join(d, 'patch.diff'), od)
        shutil.copy(os.path.join(d, 'demo.py'), od)
        meta2 = {
            'id': sid, 'breaks': meta.get('property'), 'summary': meta.get('summary'),
            'needs_to_manifest': meta.get('needs_to_manifest'), 'files_touched': meta.get('files_touched'),
            'origin': 'fresh sub-agent given only the property text and a scratch worktree of /repo',
            'base_commit': head,
            'what_i_ran': [
                'scratch worktree of /repo at base_commit (outside /repo and /verif), PYTHONPATH=<worktree>',
                'demo.py on the unmodified tree: exit 0',
                'git apply patch.diff; demo.py: exit 1 (%s)' % (r1.stdout.strip().splitlines()[0][:160] if r1.stdout.strip() else ''),
                'pinned suite with the patch: ' + (t.stdout.strip().splitlines()[-1] if t.stdout.strip() else ''),
            ],
        }
        json.dump(meta2, open(os.path.join(od, 'meta.json'), 'w'), indent=1)
sh('git -C %s checkout -- . && git -C %s clean -fdq' % (WT, WT))
