#!/venv/bin/python
"""Regenerate DESIGN.md section 11 (and the detected_by field of each seeded meta.json) from the logs of
   tools/seedtest.py --dir /verif/seeded --all-props   (one or more log files given as arguments)."""
import json, os, re, sys, subprocess

rows = {}
for f in sys.argv[1:]:
    for l in open(f):
        m = re.match(r'(\S+)\s+own\[(C\d\d)\]=(\S+)\s+others=(\S+)\s+::', l)
        if m:
            rows[m.group(1)] = (m.group(2), m.group(3), m.group(4))
head = subprocess.run('git -C /repo rev-parse --short HEAD', shell=True, capture_output=True, text=True).stdout.strip()
out = []
for sid in sorted(rows, key=lambda s: (s.startswith('r2-'), s)):
    prop, own, others = rows[sid]
    mp = '/verif/seeded/%s/meta.json' % sid
    meta = json.load(open(mp))
    meta['detected_by'] = sorted(([prop] if own == 'VIOLATION' else []) + ([] if others == '-' else others.split(',')))
    meta['detected_at'] = head
    json.dump(meta, open(mp, 'w'), indent=1)
    files = sorted({os.path.basename(l[6:].strip()) for l in open('/verif/seeded/%s/patch.diff' % sid) if l.startswith('+++ b/')})
    summ = (meta.get('summary') or '').replace('|', '/').replace('\n', ' ')[:110]
    ownv = 'caught' if own == 'VIOLATION' else ('**known miss**' if meta.get('known_miss') else own)
    out.append('| %s | %s | %s | %s | %s | %s |' % (sid, prop, ownv, others, ', '.join(files), summ))
caught = sum(1 for v in rows.values() if v[1] == 'VIOLATION')
text = '''## 11. Seeded changes and which checks catch them

Each row is one confirmed seeded defect under `/verif/seeded/<id>/` (produced by a fresh sub-agent that saw only the
property text and a scratch worktree; confirmed by `tools/revalidate.py`: its demo passes on the unmodified tree and
fails with the patch, the pinned suite passes with the patch). "own" is the verdict of the check of the property the
change was written against; "also" lists other properties whose checks report it too (most of these are genuine: the
kernel and the schedulers are shared mechanisms; C08 is the umbrella over all elements). Produced with
`tools/seedtest.py --dir /verif/seeded --all-props` on scratch worktrees (never on `/repo`) and
`tools/matrix_section.py`. `r2-` ids are round 2. This table: %d seeds at /repo %s (all patches re-created on the
repaired tree after each batch of `fix:` commits and re-validated there; three seeds were dropped as obsolete because a
repair removed the very construct they broke: r2-C13-m1 after e924495, r2-C09-m3 after d7f640f, r2-C17-m3 (`cwnd = min(cwnd, ssthresh)` in `dupack_over`, which differed only after a timeout inside fast recovery) after b6787d2; `r3-` .. `r8-` ids are rounds 3 to 8); %d caught by the
check of their own property, %d not (the two float re-associations of round 7, marked **known miss**: over the reals they are the same expression; section 0.5). The 480 stored refactorings and backwards-compatible extensions (`tools/refactest.py`): 477 silent, three recorded limitations (G08-u2, G09-v3, G10-x5; section 0.7).

| seed | breaks | own check | also flagged by | files | change |
|---|---|---|---|---|---|
%s

''' % (len(rows), head, caught, len(rows) - caught, '\n'.join(out))
d = open('/verif/DESIGN.md').read()
a = d.index('## 11. Seeded changes and which checks catch them')
b = d.index('## Appendix A.')
open('/verif/DESIGN.md', 'w').write(d[:a] + text + d[b:])
print('section 11:', len(rows), 'rows,', caught, 'caught')
