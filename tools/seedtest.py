#!/venv/bin/python
"""Run the checks against seeded defects on a scratch worktree (never /repo).

usage: seedtest.py [--all-props] [--dir /tmp/seeds|/verif/seeded] [ids ...]   e.g. C09/m1
For each seed: reset scratch worktree to /repo HEAD, apply patch.diff, run the check of the seed's own
property (or every claimed property with --all-props) with ONLSA_REPO pointing at the scratch copy.
"""
import json, os, subprocess, sys, glob

WT = os.environ.get('SEEDTEST_WT', '/tmp/wt/seedtest')
args = sys.argv[1:]
allp = '--all-props' in args
args = [a for a in args if a != '--all-props']
base = '/tmp/seeds'
if '--dir' in args:
    i = args.index('--dir'); base = args[i + 1]; del args[i:i + 2]
verbose = '-v' in args
args = [a for a in args if a != '-v']

def sh(cmd, **kw):
    return subprocess.run(cmd, shell=True, capture_output=True, text=True, **kw)

if not os.path.isdir(WT):
    r = sh('git -C /repo worktree add -q --detach %s HEAD' % WT)
    assert r.returncode == 0, r.stderr
sh('git -C %s checkout -q --detach %s' % (WT, sh('git -C /repo rev-parse HEAD').stdout.strip()))
seeds = args or sorted(os.path.relpath(os.path.dirname(p), base) for p in glob.glob(base + '/*/*/patch.diff')) \
    or sorted(os.path.relpath(os.path.dirname(p), base) for p in glob.glob(base + '/*/patch.diff'))
props = sorted(c['property_id'] for c in json.load(open('/verif/MANIFEST.json'))['checks'])
caught = missed = 0
for sd in seeds:
    d = os.path.join(base, sd)
    meta = json.load(open(os.path.join(d, 'meta.json')))
    prop = meta.get('property') or meta.get('breaks')
    sh('git -C %s checkout -- . && git -C %s clean -fdq' % (WT, WT))
    r = sh('git -C %s apply %s' % (WT, os.path.join(d, 'patch.diff')))
    if r.returncode != 0:
        print(sd, 'PATCH DOES NOT APPLY', r.stderr.strip()[:200]); continue
    res = {}
    for p in (props if allp else [prop]):
        if p not in props:
            res[p] = 'unclaimed'; continue
        rr = sh('cd /verif && ONLSA_REPO=%s ONLSA_EVIDENCE_DIR=/tmp/onlsa_ev /venv/bin/python -m onlsa check %s' % (WT, p))
        res[p] = {0: 'pass', 1: 'VIOLATION', 2: 'ANALYSIS-ERROR'}.get(rr.returncode, str(rr.returncode))
        if verbose and p == prop:
            print(rr.stdout[-1500:])
    hit = [p for p, v in res.items() if v == 'VIOLATION']
    own = res.get(prop)
    if own == 'VIOLATION': caught += 1
    else: missed += 1
    print('%-8s own[%s]=%-14s others=%s  :: %s' % (sd, prop, own, ','.join(p for p in hit if p != prop) or '-', meta.get('summary', '')[:90]))
sh('git -C %s checkout -- . && git -C %s clean -fdq' % (WT, WT))
print('caught by own property check: %d, not caught: %d' % (caught, missed))
