#!/venv/bin/python
"""probe the checks with an ad-hoc in-memory edit:  try_variant.py <relpath> <props,comma> <<< "OLD\n====\nNEW" """
import sys, importlib
sys.path.insert(0, '/verif')
from onlsa.core import Ctx, load_known
rel, props = sys.argv[1], sys.argv[2].split(',')
old, new = sys.stdin.read().split('\n====\n')
new = new.rstrip('\n')
src = open('/repo/' + rel).read()
assert src.count(old) == 1, 'old text occurs %d times' % src.count(old)
src2 = src.replace(old, new)
compile(src2, rel, 'exec')
for p in props:
    mod = importlib.import_module('onlsa.rules.%s' % p.lower())
    ctx = Ctx(p, 'quick', overlay={rel: src2})
    try:
        mod.check(ctx)
        print(p, 'findings:', len(ctx.findings))
        for f in ctx.findings[:4]:
            print('   ', f.rule, f.where, f.message[:200])
    except Exception as e:
        print(p, 'ERROR', type(e).__name__, e)
