#!/venv/bin/python
"""Re-validate the stored corpora in place against /repo HEAD (scratch worktree, never /repo itself):
 seeded/<id>: demo.py exits 0 on the clean tree and 1 with patch.diff; the pinned suite passes with the patch
 refactorings/<id>: equiv.py prints the same with and without patch.diff; the suite passes with the patch
Updates meta.json (base_commit, revalidated).  usage: revalidate.py [seeded|refactorings] [ids...]"""
import glob, json, os, subprocess, sys
WT = os.environ.get('SEEDTEST_WT', '/tmp/wt/revalidate')
kind = sys.argv[1]
ids = sys.argv[2:] or sorted(os.listdir('/verif/' + kind))

def sh(cmd):
    return subprocess.run(cmd, shell=True, capture_output=True, text=True)

if not os.path.isdir(WT):
    assert sh('git -C /repo worktree add -q --detach %s HEAD' % WT).returncode == 0
head = sh('git -C /repo rev-parse HEAD').stdout.strip()
sh('git -C %s checkout -q --detach %s' % (WT, head))
env = 'cd %s && PYTHONPATH=%s' % (WT, WT)
bad = 0
for i in ids:
    d = '/verif/%s/%s' % (kind, i)
    sh('git -C %s checkout -- . && git -C %s clean -fdq' % (WT, WT))
    prog = 'demo.py' if kind == 'seeded' else 'equiv.py'
    r0 = sh('%s timeout 600 /venv/bin/python %s/%s' % (env, d, prog))
    ap = sh('git -C %s apply %s/patch.diff' % (WT, d))
    if ap.returncode != 0:
        print('%-10s PATCH DOES NOT APPLY' % i, flush=True); bad += 1; continue
    r1 = sh('%s timeout 600 /venv/bin/python %s/%s' % (env, d, prog))
    t = None
    for attempt in range(4):
        t = sh('%s /venv/bin/python -m pytest -q -p no:cacheprovider --timeout=900 2>&1 | tail -1' % env)
        if '119 passed' in t.stdout:
            break
    suite = '119 passed' in t.stdout
    if kind == 'seeded':
        ok = r0.returncode == 0 and r1.returncode == 1 and suite
        print('%-10s clean rc=%d patched rc=%d suite=%s => %s' % (i, r0.returncode, r1.returncode, suite, 'OK' if ok else 'BAD'), flush=True)
    else:
        ok = r0.stdout == r1.stdout and r0.returncode == r1.returncode and len(r0.stdout) > 0 and suite
        print('%-10s equiv %s (%d bytes) suite=%s => %s' % (i, 'same' if r0.stdout == r1.stdout else 'DIFFERENT', len(r0.stdout), suite, 'OK' if ok else 'BAD'), flush=True)
    if ok:
        mp = os.path.join(d, 'meta.json')
        m = json.load(open(mp))
        m['base_commit'] = head
        m['revalidated'] = 'tools/revalidate.py on a scratch worktree of /repo at %s' % head[:7]
        json.dump(m, open(mp, 'w'), indent=1)
    else:
        bad += 1
sh('git -C %s checkout -- . && git -C %s clean -fdq' % (WT, WT))
print('%s: %d checked, %d bad' % (kind, len(ids), bad))
